"""Per-property description of what bin/check runs: exhaustive TLC configurations of the specification,
driver profiles, the trace specification that judges their traces and the checks it enforces."""

MC_HEAD = '''SPECIFICATION Spec
CONSTANTS
  Keys = {Keys}
  Vals = {Vals}
  BigVals = {BigVals}
  Limit = {Limit}
  Limits = {Limits}
  MaxOps = {MaxOps}
  MaxBatch = {MaxBatch}
  MaxFaults = {MaxFaults}
  MaxMerges = {MaxMerges}
  MaxRestarts = {MaxRestarts}
  SyncAlways = {SyncAlways}
  Features = {Features}
  Bug = {Bug}
CHECK_DEADLOCK FALSE
'''

def xixi_mc(name, invariants, properties=(), quick=None, thorough=None, **consts):
    base = dict(Keys='{1, 2}', Vals='{1, 2, 3}', BigVals='{3}', Limit=2, Limits=None, MaxOps=4, MaxBatch=3, MaxFaults=0,
                MaxMerges=1, MaxRestarts=1, SyncAlways='FALSE', Features='{"batch", "merge", "restart", "delete", "sync"}', Bug='{}')
    base.update(consts)
    cfg = MC_HEAD + 'INVARIANTS ' + ' '.join(invariants) + '\n'
    if properties:
        cfg += 'PROPERTIES ' + ' '.join(properties) + '\n'
    if base['Limits'] is None:      # by default every Open uses the same limit; a tier may override Limit, so Limits follows it
        base['Limits'] = '{{Limit}}'
    return dict(module='XiXiKV', name=name, cfg=cfg, consts=base, quick=quick or {}, thorough=thorough or {}, workers=12, timeout=1500, xmx='12g')

ALL_INV = ['MapSemantics', 'QuiescentLiveEqualsRecovered', 'RecoveredOK', 'NeverFails', 'AccountingExact',
           'FileSizeRespected', 'SyncObligations', 'LockDiscipline']

PROPS = {}

PROPS['C01'] = dict(
    level='model_checking',
    mc=[xixi_mc('MC_Map', ['MapSemantics', 'QuiescentLiveEqualsRecovered', 'RecoveredOK', 'NeverFails'],
                quick=dict(MaxOps=4), thorough=dict(MaxOps=5))],
    traces=[dict(profile='map', spec='EngineTrace',
                 enforce=['res', 'bres', 'open', 'vals', 'keys', 'fold', 'scan', 'index'],
                 quick_seeds=1, thorough_seeds=3)],
    assumptions=['value identity = SHA-1 of the bytes (driver side); the TLA+ model compares identities',
                 'TLC explores the mechanism model exhaustively only for the bounded constants listed in mc_runs'],
)

E_ASSUME = ['value identity = SHA-1 of the bytes (driver side); the TLA+ model compares identities',
            'TLC explores the mechanism model exhaustively only for the bounded constants listed in mc_runs']

PROPS['C02'] = dict(
    level='model_checking',
    mc=[xixi_mc('MC_Restart', ['MapSemantics', 'QuiescentLiveEqualsRecovered', 'RecoveredOK', 'NeverFails', 'LockDiscipline'],
                quick=dict(MaxOps=4, MaxRestarts=2, MaxMerges=1), thorough=dict(MaxOps=5, MaxRestarts=2))],
    traces=[dict(profile='restart', spec='EngineTrace',
                 enforce=['open', 'vals', 'keys', 'fold', 'statkeys', 'scan', 'index'],
                 quick_seeds=1, thorough_seeds=1),
            # restarts that adopt a merge (hint path) and the restart after it, keys up to 40 000 bytes
            dict(profile='merge', spec='EngineTrace',
                 enforce=['open', 'vals', 'keys', 'fold', 'statkeys', 'scan', 'index'],
                 quick_seeds=1, thorough_seeds=1)],
    assumptions=E_ASSUME + ['end offsets 1..7 of a block (and 1..11 of block 0) are unreachable through DB.Put and are not swept'],
)

PROPS['C05'] = dict(
    level='model_checking',
    mc=[xixi_mc('MC_Batch', ['MapSemantics', 'QuiescentLiveEqualsRecovered', 'RecoveredOK', 'NeverFails', 'FileSizeRespected'],
                Features='{"batch", "delete", "restart"}', MaxMerges=0,
                quick=dict(MaxOps=5, MaxBatch=3), thorough=dict(MaxOps=6, MaxBatch=4))],
    traces=[dict(profile='batch', spec='EngineTrace',
                 enforce=['bres', 'res', 'open', 'vals', 'keys', 'scan', 'index'],
                 quick_seeds=1, thorough_seeds=2)],
    assumptions=E_ASSUME,
)

def sbatch_sig(e):
    if e.get('ev') == 'sbatch':
        return ('sbatch', e.get('kind'), e.get('late'), e.get('effect'))
    return None
# several goroutines on one batch: a late call queued around the Commit (forced with a blocking I/O hook)
PROPS['C05']['traces'].append(dict(profile='sharedbatch', spec='LinTrace', enforce=['sbatch'], sig=sbatch_sig, deterministic=False,
                                   quick_seeds=1, thorough_seeds=2))

PROPS['C17'] = dict(
    level='model_checking',
    mc=[xixi_mc('MC_Stat', ['AccountingExact', 'FileSizeRespected', 'MapSemantics'],
                quick=dict(MaxOps=4), thorough=dict(MaxOps=5))],
    traces=[dict(profile='stat', spec='EngineTrace',
                 enforce=['stat', 'statkeys', 'files', 'open', 'mergeok', 'statsnap'],
                 quick_seeds=1, thorough_seeds=2),
            # the counters of a database recovered from a process death inside a batch (unsealed batch records in the log);
            # the mapping of an image is not known to the trace specification, so only the accounting checks are enforced
            dict(profile='statcrash', spec='EngineTrace', enforce=['stat', 'files', 'open', 'mergeok', 'statsnap'],
                 quick_seeds=1, thorough_seeds=2)],
    assumptions=E_ASSUME + ['bytes occupied by a live record = the size the index reports for it (C11 decides that this size is right)',
                            'a file may exceed the largest DataFileSize used so far in the run only with one record (+ sealing record)'],
)

ALL_RES = ['res', 'bres', 'open', 'vals', 'keys', 'fold', 'scan', 'index', 'statkeys']

PROPS['C14'] = dict(
    level='model_checking',
    mc=[xixi_mc('MC_Cfg', ['MapSemantics', 'QuiescentLiveEqualsRecovered', 'RecoveredOK'],
                quick=dict(MaxOps=4, Limit=1), thorough=dict(MaxOps=5, Limit=3))],
    traces=[dict(profile='lockstep', spec='EngineTrace', enforce=ALL_RES + ['xcfg', 'xbytes'],
                 quick_seeds=1, thorough_seeds=1)],
    assumptions=E_ASSUME + ['the specification does not mention IndexType, ShardNum or FileIOType: every configuration is judged against the same deterministic model, plus a direct digest comparison of the transcripts',
                            'MC_Cfg re-checks the mechanism invariants under other Limit values (layout changes, results do not)'],
)

PROPS['C15'] = dict(
    level='model_checking',
    mc=[xixi_mc('MC_Hostile', ['MapSemantics', 'QuiescentLiveEqualsRecovered'], Features='{"batch", "delete", "restart"}',
                MaxMerges=0, quick=dict(MaxOps=5), thorough=dict(MaxOps=6))],
    traces=[dict(profile='hostile', spec='EngineTrace', enforce=ALL_RES + ['caller_intact', 'returned_intact'],
                 quick_seeds=1, thorough_seeds=2)],
    assumptions=E_ASSUME + ['the caller\'s buffers are not part of the specification\'s state: scribbling is a stuttering step, so every later result must still follow the model',
                            'slices returned by Batch.Get are not monitored (the property names Get)'],
)

PROPS['C20'] = dict(
    level='model_checking',
    mc=[xixi_mc('MC_Backup', ['QuiescentLiveEqualsRecovered', 'MapSemantics', 'RecoveredOK', 'BackupOpensToSnapshot'],
                Features='{"batch", "merge", "restart", "delete", "backup"}', Vals='{1, 2}', BigVals='{}', MaxBatch=2,
                quick=dict(MaxOps=3), thorough=dict(MaxOps=4))],
    traces=[dict(profile='backup', spec='EngineTrace', enforce=['backup', 'res', 'bres', 'open', 'vals', 'keys', 'scan', 'index'],
                 quick_seeds=1, thorough_seeds=2)],
    assumptions=E_ASSUME + ['in the model Backup copies the logical content of every data file and the hint file (no lock, no merge directory); BackupOpensToSnapshot: a plain recovery of the last copy yields the view at the call, whatever the source did since',
                            'an engine death (SIGBUS) after a backup ends the driver; the parent appends a died event, which no specification action accepts'],
)

PROPS['C06'] = dict(
    level='model_checking',
    mc=[xixi_mc('MC_Merge', ['MapSemantics', 'QuiescentLiveEqualsRecovered', 'RecoveredOK', 'NeverFails', 'AccountingExact'],
                properties=['MergeDirGone', 'AdoptedDirIsMinimal'], Features='{"batch", "merge", "restart", "delete"}',
                quick=dict(MaxOps=3, MaxMerges=2, MaxRestarts=2, Limit=2), thorough=dict(MaxOps=4, MaxMerges=2, MaxRestarts=2, Limit=2))]
        # every Open chooses its own DataFileSize: the merge output may need fewer, equally many or more files than the input
        # (more: the merge gives up without a marker and nothing changes)
        + [xixi_mc('MC_MergeLimits', ['MapSemantics', 'QuiescentLiveEqualsRecovered', 'RecoveredOK', 'NeverFails', 'AccountingExact', 'FileSizeRespected'],
                   properties=['MergeDirGone'], Features='{"merge", "restart", "delete"}', Limits='{1, 2, 3}', Vals='{1, 2}', BigVals='{}',
                   quick=dict(MaxOps=3, MaxMerges=1, MaxRestarts=2, Limit=2), thorough=dict(MaxOps=4, MaxMerges=2, MaxRestarts=2, Limit=2))],
    traces=[dict(profile='merge', spec='EngineTrace',
                 enforce=['res', 'bres', 'open', 'vals', 'keys', 'fold', 'scan', 'index', 'nomdir', 'adopted', 'statkeys'],
                 quick_seeds=1, thorough_seeds=2),
            # every (scan step, client call) interleaving of a small database, forced with a blocking hook
            dict(profile='mergerace', spec='EngineTrace',
                 enforce=['res', 'bres', 'open', 'vals', 'keys', 'fold', 'scan', 'index', 'nomdir', 'statkeys'],
                 quick_seeds=1, thorough_seeds=1, deterministic=False)],
    assumptions=E_ASSUME + ['Merge may return an error (then only "the mapping is unchanged" is demanded); the evidence reports how many merges succeeded',
                            'racing writers: the model interleaves client calls with MergeScan steps; profile mergerace forces every (scan step i, client call) pair of small databases on the engine with a blocking hook (the adopted-directory minimality check is not applied there: a record rewritten before the racing write is legitimately superseded)'],
)

PROPS['C18'] = dict(
    level='model_checking',
    mc=[xixi_mc('MC_Hint', ['QuiescentLiveEqualsRecovered', 'RecoveredOK', 'NeverFails', 'MapSemantics'],
                properties=['AdoptedDirIsMinimal'], Features='{"batch", "merge", "restart", "delete"}',
                quick=dict(MaxOps=4, MaxMerges=1, MaxRestarts=2, Limit=1), thorough=dict(MaxOps=4, MaxMerges=2, MaxRestarts=2, Limit=1))],
    traces=[dict(profile='merge', spec='EngineTrace', enforce=['hint', 'hintcmp', 'open'],
                 quick_seeds=1, thorough_seeds=2)],
    assumptions=E_ASSUME + ['the hint file and the rewritten files are decoded with the package\'s own readers (C11/C12 decide those)',
                            'in the model the index after an adopting Open is built by HintFold + scan of the later files, and QuiescentLiveEqualsRecovered compares it with a full scan'],
)

CRASH_CONSTS = "  Known = {Known}"
CRASH_ASSUME = ['fault model of the property: process death keeps every written byte; power failure additionally cuts one file at a time to any length between its flushed size and its written size (and all others stay whole)',
                'flushed = a completed Sync/msync reported by the I/O interception; creation of files and renames are assumed durable',
                'images are taken at the entry of every intercepted I/O call (the state "between two I/O calls")',
                'TLC explores the mechanism model exhaustively only for the bounded constants listed in mc_runs']

def crash_sig(e):
    if e.get('ev') == 'io':
        return ('io', e.get('kind'), e.get('d'), e.get('x'))
    if e.get('ev') == 'crashrec':
        return ('crashrec', e.get('proc'), e.get('open'), e.get('label', '').split(':')[0], e.get('cont', {}).get('did'), e.get('clean'))
    if e.get('ev') == 'call':
        return ('call', e.get('op'))
    return None

PROPS['C03'] = dict(
    level='model_checking',
    mc=[xixi_mc('MC_Crash', ['RecoveredOK', 'NeverFails', 'MapSemantics', 'SyncObligations'],
                Features='{"batch", "syncbatch", "delete", "sync", "crash", "powerloss", "torn"}', MaxMerges=0, MaxRestarts=0,
                quick=dict(MaxOps=4, MaxFaults=1, Keys='{1, 2}', Vals='{1, 2}', BigVals='{}'),
                thorough=dict(MaxOps=5, MaxFaults=2, Keys='{1, 2}', Vals='{1, 2}', BigVals='{}')),
        # power failure after a finished (marked, not yet adopted) merge: the merge directory survives, unflushed tails do not
        xixi_mc('MC_MergePower', ['RecoveredOK', 'NeverFails', 'MapSemantics'],
                Features='{"merge", "delete", "powerloss", "restart"}', MaxFaults=1, MaxMerges=1, MaxRestarts=1, Limit=2, Vals='{1, 2}', BigVals='{}',
                quick=dict(MaxOps=3), thorough=dict(MaxOps=4, Features='{"merge", "delete", "powerloss", "restart", "batch"}'))],
    traces=[dict(profile='crash', spec='CrashTrace', enforce=['recok'], consts=CRASH_CONSTS, sig=crash_sig,
                 quick_seeds=1, thorough_seeds=2),
            # writes racing with a merge, power failure once the merge is marked (predicted by MC_MergePower, F30)
            dict(profile='mergepower', spec='CrashTrace', enforce=['recok'], consts=CRASH_CONSTS, sig=crash_sig,
                 quick_seeds=1, thorough_seeds=2)],
    rule='distinct (crash kind, Open outcome, intercepted I/O kind at the image, continued?, clean?) tuples and distinct call kinds; trivial = none',
    assumptions=CRASH_ASSUME,
)

PROPS['C04'] = dict(
    level='model_checking',
    mc=[xixi_mc('MC_BatchCrash', ['RecoveredOK', 'NeverFails', 'MapSemantics', 'SyncBatchDurable', 'FileSizeRespected'],
                Features='{"batch", "syncbatch", "delete", "crash", "powerloss", "restart"}', MaxMerges=0,
                quick=dict(MaxOps=4, MaxBatch=3, MaxFaults=1, MaxRestarts=1, Keys='{1, 2}', Vals='{1, 3}', BigVals='{3}'),
                thorough=dict(MaxOps=5, MaxBatch=3, MaxFaults=2, MaxRestarts=1, Keys='{1, 2}', Vals='{1, 3}', BigVals='{3}')),
        xixi_mc('MC_BatchMerge', ['RecoveredOK', 'NeverFails', 'MapSemantics', 'QuiescentLiveEqualsRecovered'],
                Features='{"batch", "delete", "merge", "restart", "crash"}',
                quick=dict(MaxOps=4, MaxBatch=3, MaxFaults=1, MaxRestarts=1, MaxMerges=1, Vals='{1}', BigVals='{}'),
                thorough=dict(MaxOps=4, MaxBatch=3, MaxFaults=1, MaxRestarts=2, MaxMerges=1, Vals='{1, 2}', BigVals='{}'))],
    traces=[dict(profile='batchcrash', spec='CrashTrace', enforce=['recok', 'c13batch'], consts=CRASH_CONSTS, sig=crash_sig,
                 quick_seeds=1, thorough_seeds=2),
            dict(profile='batch', spec='EngineTrace', enforce=['open', 'vals', 'keys', 'scan', 'index'], quick_seeds=1, thorough_seeds=1),
            dict(profile='merge', spec='EngineTrace', enforce=['open', 'vals', 'keys', 'scan', 'index', 'adopted'], quick_seeds=1, thorough_seeds=1)],
    rule='distinct (crash kind, Open outcome, intercepted I/O kind at the image, continued?, clean?) tuples and distinct call kinds, plus distinct (op, outcome, size class, configuration) tuples of the restart/merge traces; trivial = none',
    assumptions=CRASH_ASSUME + ['a batch is one mutation whose write set is the fold of its staged operations; "all or none" = the recovered mapping is a prefix that contains the batch entirely or not at all',
                                'later histories (restarts, merges over batch-written records) are judged by the EngineTrace families batch and merge'],
)

PROPS['C13'] = dict(
    level='model_checking',
    mc=[xixi_mc('MC_Sync', ['SyncObligations', 'SyncBatchDurable', 'MapSemantics'], SyncAlways='TRUE',
                Features='{"batch", "syncbatch", "delete", "sync", "restart"}', MaxMerges=0,
                quick=dict(MaxOps=5), thorough=dict(MaxOps=6)),
        xixi_mc('MC_SyncNo', ['SyncObligations', 'SyncBatchDurable'], SyncAlways='FALSE',
                Features='{"batch", "syncbatch", "delete", "sync", "merge"}',
                quick=dict(MaxOps=4), thorough=dict(MaxOps=5))],
    traces=[dict(profile='sync', spec='CrashTrace', enforce=['c13always', 'c13threshold', 'c13batch', 'c13sync', 'c13rot'],
                 consts=CRASH_CONSTS, sig=crash_sig, quick_seeds=1, thorough_seeds=2)],
    rule='distinct call kinds per configuration (sync strategy x BytesPerSync x io); trivial = none',
    assumptions=['flushed = a completed Sync/msync reported by the I/O interception (fio hooks); the flush inside MMap.Close is reported by an added hook line',
                 'Threshold counts the bytes of acknowledged Put/Delete records (block-tail padding excluded, computed by the Framing rule) that lie beyond the flushed size of their file',
                 'the Threshold strategy is not part of the exhaustive model (Always/No are); it is decided on real traces only'],
)

PROPS['C07'] = dict(
    level='model_checking',
    mc=[xixi_mc('MC_MergeCrash', ['RecoveredOK', 'NeverFails', 'MapSemantics', 'QuiescentLiveEqualsRecovered', 'LockDiscipline'],
                properties=['MergeDirGone'], Features='{"merge", "delete", "crash", "restart"}',
                quick=dict(MaxOps=3, MaxFaults=2, MaxMerges=2, MaxRestarts=1, Limit=2, Vals='{1, 2}', BigVals='{}'),
                thorough=dict(MaxOps=3, MaxFaults=3, MaxMerges=2, MaxRestarts=1, Limit=2, Vals='{1, 2}', BigVals='{}')),
        xixi_mc('MC_MergeCrashBatch', ['RecoveredOK', 'NeverFails', 'MapSemantics'],
                Features='{"merge", "batch", "delete", "crash"}', tiers=['thorough'],
                thorough=dict(MaxOps=4, MaxFaults=1, MaxMerges=1, MaxBatch=2, Limit=2, Vals='{1}', BigVals='{}'))],
    traces=[dict(profile='mergecrash', spec='CrashTrace', enforce=['recok'], consts=CRASH_CONSTS, sig=crash_sig,
                 quick_seeds=1, thorough_seeds=2)],
    rule='distinct (Open outcome, engine point or I/O kind at the image incl. /retry and /partial-rm variants, continued?, clean?) tuples; trivial = none',
    assumptions=['process death only (the property): every written byte survives; images of both directories are taken before every remove / rename / remove-all / mkdir of Merge and of adoption (named engine points) and before every I/O call',
                 'a crash inside the recursive removal of the merge directory is emulated by removing subsets of its files at the point that precedes os.RemoveAll',
                 'second crash: every image is reopened with the interception on and every step of that retry is imaged and reopened again',
                 'TLC explores the mechanism model (merge scan, marker, adoption one file-system operation per step, Crash anywhere, two faults) exhaustively for the bounded constants listed in mc_runs'],
)

FRAMING_CFG = '''SPECIFICATION Spec
CONSTANTS
  B = 16
  H = 3
  MaxRecs = {MaxRecs}
  Lens = {Lens}
INVARIANTS SeqRoundTrip RandomRoundTrip SizeIsOccupancy PositionsValid
CHECK_DEADLOCK FALSE
'''
LEMMA_CFG = '''SPECIFICATION Spec
CONSTANTS
  B = 32768
  H = 7
  Lens = {Lens}
  KVLens = {KVLens}
INVARIANTS Lemmas EstimateSafe
CHECK_DEADLOCK FALSE
'''
def _set(xs): return '{' + ', '.join(str(x) for x in xs) + '}'

def framing_sig(e):
    if e.get('ev') != 'case':
        return None
    r0 = e['recs'][0] if e['recs'] else {}
    return ('case', e.get('io'), e.get('flush'), len(e.get('recs', [])), e.get('abs', 0) % 32768 > 32768 - 16 or e.get('abs', 0) % 32768 < 16,
            r0.get('kind'), min(r0.get('size', 0) // 32768, 4), e.get('abs', 0) // 32768)

PROPS['C11'] = dict(
    level='model_checking',
    mc=[dict(module='Framing', name='MC_Framing', cfg=FRAMING_CFG, consts={}, workers=12, timeout=1500, xmx='12g',
             quick=dict(MaxRecs=3, Lens=_set(range(1, 41))), thorough=dict(MaxRecs=4, Lens=_set(list(range(1, 31)) + [33, 40, 45]))),
        dict(module='FramingLemmas', name='MC_FramingReal', cfg=LEMMA_CFG, consts={}, workers=12, timeout=1500, xmx='12g',
             quick=dict(Lens=_set([1, 7, 100, 32753, 32754, 32760, 32761, 32762, 65522, 100000]), KVLens=_set([0, 1, 64, 8192, 70000])),
             thorough=dict(Lens=_set([1, 5, 6, 7, 8, 20, 100, 32740, 32752, 32753, 32754, 32755, 32759, 32760, 32761, 32762, 32763, 32767, 32768, 32769, 65521, 65522, 65523, 65529, 65536, 98283, 100000]),
                           KVLens=_set([0, 1, 63, 64, 8191, 8192, 32768, 70000])))],
    traces=[dict(profile='framing', spec='FramingTrace', enforce=['pos', 'size', 'seq', 'rand', 'xio'], sig=framing_sig,
                 consts='  B = 32768\n  H = 7', trace_event='case',
                 quick_seeds=1, thorough_seeds=1, tlc_timeout=2400, driver_timeout=2400)],
    rule='distinct (back-end, single/flush, record count, start within 16 bytes of a block edge, record kind, blocks spanned, start block) tuples of real DataFile cases; trivial = none',
    assumptions=['byte identity of payloads is established by the driver (bytes.Equal) and only its verdict reaches TLC; the model proves read(write(x)) = x on abstract cells',
                 'the exhaustive byte-level check uses scaled constants B=16, H=3; the real constants are covered by the arithmetic lemmas at every offset and by the implementation cases',
                 'payload length 0 cannot occur (a record has at least a 4-byte header) and is not modelled',
                 'end states 1..7 of a block (1..11 of block 0) are unreachable through the writer'],
)

def damage_sig(e):
    if e.get('ev') != 'damage':
        return event_sig_local(e)
    ext = e.get('file', '').split('.')[-1]
    return ('damage', e.get('kind'), e.get('file', '').split('/')[0], ext, e.get('open'), e.get('scanerr'), e.get('folderr'),
            tuple(sorted(set(e.get('geterrs', [])))))

def event_sig_local(e):
    if e.get('ev') == 'op':
        return ('op', e.get('op'), e.get('err'))
    return None

PROPS['C12'] = dict(
    level='fault_enumeration',
    mc=[dict(module='Framing', name='MC_FramingDamage', cfg=FRAMING_CFG.replace('INVARIANTS SeqRoundTrip RandomRoundTrip SizeIsOccupancy PositionsValid', 'INVARIANTS DamageSafe TruncSafe'),
             consts={}, workers=12, timeout=1500, xmx='12g',
             quick=dict(MaxRecs=3, Lens=_set([1, 2, 5, 9, 10, 11, 12, 13, 14, 20, 27, 30])), thorough=dict(MaxRecs=3, Lens=_set(range(1, 36))))],
    traces=[dict(profile='damage', spec='EngineTrace', enforce=['damage', 'ldamage', 'res', 'bres', 'open'], sig=damage_sig, trace_event='damage',
                 quick_seeds=1, thorough_seeds=1, tlc_timeout=2400, driver_timeout=2400)],
    rule='distinct (damage kind, directory, file type, Open outcome, reader outcome, Fold outcome, set of Get outcomes) tuples over the injected damages; every injected damage is a distinct case (file, offset, bit); trivial = none',
    assumptions=['CRC-32 is treated as collision-free in the model (a damaged chunk decodes to an error); the exhaustive bit-flip sweep on the real code is what exercises the real checksum',
                 'bit flips: strict rule (original value or an error, not-found only for absent keys); cuts, overwrites and garbage may remove whole records undetectably by design: a value once written to that key, or not-found, or an error',
                 'quick: every bit of header zones (first 40 bytes of each record, first 16 of each block, whole hint/marker files), one seeded bit per byte elsewhere in small files, every 37th byte in large ones; thorough: every bit of every byte of files up to 3000 bytes'],
)

ITER_CFG = '''SPECIFICATION Spec
CONSTANTS
  N = {N}
  S = {S}
  MaxCalls = {MaxCalls}
  FreshSkips = TRUE
INVARIANT Agree
CHECK_DEADLOCK FALSE
'''
def iter_sig(e):
    if e.get('ev') == 'icall':
        return ('icall', e.get('op'), e.get('valid'))
    if e.get('ev') == 'inew':
        return ('inew', e.get('rev'), len(e.get('match', [])) > 0, e.get('valid'))
    return None

PROPS['C10'] = dict(
    level='model_checking',
    mc=[dict(module='Iter', name='MC_Iter', cfg=ITER_CFG, consts={}, workers=12, timeout=2400, xmx='16g',
             quick=dict(N=4, S=2, MaxCalls=4), thorough=dict(N=5, S=3, MaxCalls=5))],
    traces=[dict(profile='iter', spec='EngineTrace', enforce=['iter', 'keys', 'fold', 'vals', 'res', 'open'], sig=iter_sig,
                 quick_seeds=1, thorough_seeds=2)],
    rule='distinct (call, resulting validity) and (creation direction, prefix matches anything, initially valid) tuples per configuration; trivial = none',
    assumptions=['Seek legality (fresh/rewound iterator, or no snapshot key between the target and the cursor) is defined once in the specification; the driver generates only legal Seeks and the trace specification re-checks legality (an illegal one is a driver bug: exit 2, never a violation)',
                 'seek targets are logged in doubled rank space (2r = key r, 2r+1 = strictly between keys r and r+1); key order = byte order of the generated universe',
                 'the mechanism model (per-shard cursors, heap, parked list, prefix skip) is checked against the reference cursor exhaustively for the bounded constants in mc_runs'],
)

CONC_CFG = '''SPECIFICATION Spec
CONSTANTS
  Clients = {Clients}
  Keys = {1, 2}
  Menu <- {Menu}
  Bug = {}
INVARIANTS {Invs}
CHECK_DEADLOCK FALSE
'''
class LinSig:
    """distinct histories = distinct (label, order of call/return events) per key; plus (call, outcome) pairs"""
    def __init__(self):
        self.cur = None
    def __call__(self, e):
        ev = e.get('ev')
        if ev == 'reset':
            self.cur = [e.get('label', '')]
            return None
        if ev in ('call', 'ret') and self.cur is not None:
            self.cur.append((ev, e.get('c'), e.get('op')))
            return ('ret', e.get('op'), e.get('err')) if ev == 'ret' else None
        if ev == 'final' and self.cur is not None:
            h = hash(tuple(self.cur)); n = len(self.cur); self.cur = None
            return ('history', h) if n > 3 else None      # a history with at most one call is trivial
        if ev == 'cop':
            return ('cop', e.get('op'), e.get('err'))
        return None
lin_sig = LinSig()

def lin_sig_old(e):
    if e.get('ev') == 'reset':
        return ('history', e.get('label', '').split(':')[0], e.get('label', '').split('/')[-1])
    if e.get('ev') == 'ret':
        return ('ret', e.get('op'), e.get('err'))
    if e.get('ev') == 'cop':
        return ('cop', e.get('op'), e.get('err'))
    return None

PROPS['C08'] = dict(
    level='model_checking',
    mc=[dict(module='MC_Conc', name='MC_ConcRW', cfg=CONC_CFG, consts=dict(Invs='QuiescentLiveEqualsRecovered IndexShowsRegister GetReturnsRegister NoInternalError NoDeadlock', Menu='MenuRW'),
             workers=12, timeout=2400, xmx='16g',
             quick=dict(Clients='{"a", "b", "c"}'), thorough=dict(Clients='{"a", "b", "c", "d"}'))],
    traces=[dict(profile='conc', spec='LinTrace', enforce=[], sig=lin_sig, deterministic=False, chunk=15000,
                 quick_seeds=1, thorough_seeds=2, tlc_timeout=2400)],
    rule='distinct per-key histories (label + order of call/return events; histories with at most one call are trivial and not counted) plus distinct (call, outcome) pairs',
    assumptions=['call/return order = a global atomic counter taken by the client immediately before the call and after the return (never wall-clock time)',
                 'linearizability is checked per key (it is a local property); TLC places the unlogged linearization points',
                 'forced schedules: a blocking hook parks client A at a schedule point while B runs; an interleaving the locks forbid is not explored (gate timeout), and time never produces a verdict',
                 'a rejected concurrent history is itself the evidence (replay = re-validating the saved history); schedules are not reproducible by seed'],
)

PROPS['C09'] = dict(
    level='model_checking',
    mc=[dict(module='MC_Conc', name='MC_ConcAll', cfg=CONC_CFG, consts=dict(Invs='NoPanic NoInternalError NoDeadlock NoRace QuiescentLiveEqualsRecovered', Menu='MenuAll'),
             workers=12, timeout=2400, xmx='16g',
             quick=dict(Clients='{"a", "b", "c"}'), thorough=dict(Clients='{"a", "b", "c", "d"}'))],
    traces=[dict(profile='race', spec='LinTrace', enforce=['c09', 'norace', 'nostuck', 'bgclose'], sig=lin_sig, deterministic=False, race=True, chunk=15000,
                 quick_seeds=1, thorough_seeds=2, tlc_timeout=2400),
            dict(profile='conc', spec='LinTrace', enforce=['nostuck'], sig=lin_sig, deterministic=False, race=True, chunk=15000,
                 quick_seeds=1, thorough_seeds=1, tlc_timeout=2400)],
    rule='distinct (call kind, outcome) pairs per configuration of the mixed workloads, and distinct forced/random schedules; trivial = none',
    assumptions=['the clause "without unsynchronised conflicting memory accesses" is a statement about memory accesses that a TLA+ specification does not observe: it is decided by Go\'s happens-before race detector acting as an execution monitor on the engine built with -race during these runs (a report makes the norace note false); the specification contributes the lockset invariant NoRace on the model and the schedule points used to perturb the runs',
                 'deadlock: a run that does not finish within 120 s is reported with a goroutine dump (nostuck); panics are recovered per call and logged as outcome "panic", which no call allows',
                 'errors allowed per call are listed in LinTrace.Allowed (Merge may answer "merge is in progress" or give up when its output would not fit)'],
)

DIRLOCK_CFG = '''SPECIFICATION Spec
CONSTANTS
  Openers = {Openers}
  MaxSteps = {MaxSteps}
  Bug = {}
INVARIANTS AtMostOneOpen LockReleased HolderIsOpener
CHECK_DEADLOCK FALSE
'''
def lock_sig(e):
    if e.get('ev') == 'lk':
        return ('lk', e.get('act'), e.get('res').split(':')[0], e.get('o', 0) % 10)
    if e.get('ev') == 'race':
        return ('race', len(e.get('res', [])), tuple(sorted(set(x.split(':')[0] for x in e.get('res', [])))))
    if e.get('ev') == 'setdir':
        return ('setdir', e.get('corrupt'), e.get('kind'))
    return None

PROPS['C16'] = dict(
    level='model_checking',
    mc=[dict(module='DirLock', name='MC_DirLock', cfg=DIRLOCK_CFG, consts={}, workers=8, timeout=1200, xmx='8g',
             quick=dict(Openers='{"p1g0", "p1g1", "p2g0", "p3g0"}', MaxSteps=13), thorough=dict(Openers='{"p1g0", "p1g1", "p2g0", "p2g1", "p3g0", "p3g1"}', MaxSteps=16))],
    proofs=[dict(module='DirLockProof', theorem='Spec => [](LockReleased /\\ HolderIsOpener) for any number of openers and steps (inductive invariant TypeOK /\\ Excl /\\ Held)')],
    traces=[dict(profile='dirlock', spec='DirLockTrace', enforce=['lock'], sig=lock_sig, deterministic=False,
                 quick_seeds=1, thorough_seeds=2)],
    rule='distinct (attempt kind, result, goroutine slot) tuples, distinct racing groups by (size, result set), directory damage/repair events; trivial = none',
    assumptions=['openers are goroutine slots of three child processes of the driver, controlled over pipes; attempts are sequential except the barrier-released racing groups, whose internal order is not assumed (exactly one winner is demanded)',
                 'the directory fingerprint (names, sizes, SHA-1 of contents, lock file excluded) is taken before and after every rejected Open',
                 'if child processes cannot be started the driver records that and the trace is empty (reported in the evidence summary)'],
)

DT_CFG = '''SPECIFICATION Spec
CONSTANTS
  Keys = {Keys}
  Elems = {1, 2}
  Vals = {1, 2}
  MaxCmds = {MaxCmds}
  Bug = {}
INVARIANTS RepliesAdmissible Refines SizeExact
CHECK_DEADLOCK FALSE
'''
def types_sig(e):
    if e.get('ev') == 'cmd':
        return ('cmd', e.get('c'), e.get('err'), e.get('b'), e.get('vres', 0) != 0, e.get('exp'))
    if e.get('ev') == 'restart':
        return ('restart',)
    return None

PROPS['C19'] = dict(
    level='model_checking',
    mc=[dict(module='DataTypes', name='MC_DataTypes', cfg=DT_CFG, consts={}, workers=12, timeout=2400, xmx='16g',
             quick=dict(Keys='{1}', MaxCmds=6), thorough=dict(Keys='{1}', MaxCmds=7))],
    traces=[dict(profile='types', spec='DataTypesTrace', enforce=['types'], sig=types_sig,
                 quick_seeds=1, thorough_seeds=2)],
    rule='distinct (command, error, flag, value returned?, expired?) tuples per configuration; trivial = none',
    assumptions=['left open by the property and therefore nondeterministic in DTSem: what a command of another type answers on a vacant key (expired String, emptied container), and Type / Get of such a key',
                 'an absent field/member/element may be reported as (nil, nil) or as key-not-found (both are "absent")',
                 'expiry is made deterministic with TTLs of -1 s and +1 h; scores are small integers',
                 'a process death inside an updating command leaves the key in its state before the command or in a state the command may leave (each update is one batch on the engine, C04); every third trace takes such images and continues on them'],
)

# ---- spec -> code: behaviours of the mechanism model, generated by TLC in simulation mode, stepped through the engine
import mbt
def gen_family(name, gens, **kw):
    d = dict(profile='gen', name=name, spec='CrashTrace', enforce=['recok', 'view'], consts=CRASH_CONSTS, sig=crash_sig,
             prepare=mbt.prepare, gens=gens, quick_seeds=1, thorough_seeds=2)
    d.update(kw)
    return d

FEAT_CRASH = '{"batch", "syncbatch", "delete", "sync", "crash", "powerloss", "torn", "restart"}'
FEAT_BATCH = '{"batch", "syncbatch", "delete", "crash", "powerloss", "torn", "restart"}'
FEAT_MERGEC = '{"merge", "delete", "crash", "restart", "batch"}'
FEAT_MERGE = '{"merge", "delete", "restart", "batch"}'
FEAT_MAP = '{"batch", "delete", "restart", "sync", "merge"}'
GEN_CRASH = [dict(consts=dict(Features=FEAT_CRASH, MaxOps=8, MaxFaults=2, MaxMerges=0, MaxRestarts=1), num=300, thorough_num=3000, depth=80)]
GEN_BATCH = [dict(consts=dict(Features=FEAT_BATCH, MaxOps=8, MaxBatch=3, MaxFaults=2, MaxMerges=0, MaxRestarts=1, Vals='{1, 3}'), num=300, thorough_num=3000, depth=80)]
GEN_MERGEC = [dict(consts=dict(Features=FEAT_MERGEC, MaxOps=6, MaxFaults=3, MaxMerges=2, MaxRestarts=2, MaxBatch=2, Vals='{1, 2}', BigVals='{}'), num=200, thorough_num=2000, depth=100),
              # process deaths only inside Merge and inside adoption, no batches: more merges per behaviour
              dict(consts=dict(Features='{"merge", "delete", "crash", "restart"}', Focus='merge', Keys='{1, 2, 3}', MaxOps=5, MaxFaults=3, MaxMerges=3, MaxRestarts=2, Vals='{1, 2}', BigVals='{}'), num=300, thorough_num=3000, depth=120)]
GEN_MERGE = [dict(consts=dict(Features=FEAT_MERGE, MaxOps=7, MaxFaults=0, MaxMerges=2, MaxRestarts=2, MaxBatch=2), num=200, thorough_num=2000, depth=100),
             # every Open chooses its own file-size limit (merge output needing fewer / more files than the input)
             dict(consts=dict(Features=FEAT_MERGE, MaxOps=7, MaxFaults=0, MaxMerges=2, MaxRestarts=3, MaxBatch=2, Limits='{1, 2, 3}'), num=200, thorough_num=2000, depth=100)]
GEN_MAP = [dict(consts=dict(Features=FEAT_MAP, MaxOps=10, MaxFaults=0, MaxMerges=1, MaxRestarts=2, MaxBatch=3), num=300, thorough_num=3000, depth=100)]
GEN_SYNC = [dict(consts=dict(Features='{"batch", "syncbatch", "delete", "sync", "restart"}', MaxOps=8, MaxFaults=0, MaxMerges=0, MaxRestarts=1, SyncAlways='TRUE'), num=200, thorough_num=2000, depth=80)]
def goal_family(name, goals, **kw):
    """spec -> code, directed: the shortest behaviour of XiXiKVGen to each goal (TLC breadth-first), replayed under six configurations"""
    d = dict(profile='gen', name=name, spec='CrashTrace', enforce=['recok', 'view'], consts=CRASH_CONSTS, sig=crash_sig,
             prepare=mbt.prepare_goals, goals=goals, reps=6, quick_seeds=1, thorough_seeds=1)
    d.update(kw)
    return d
PROPS['C03']['traces'].append(gen_family('gencrash', GEN_CRASH))
PROPS['C03']['traces'].append(goal_family('goalscrash', ['TornLaterFile', 'PowerAfterMark', 'SyncBatchThenLoss', 'Bug_MergeMarksUnflushed']))
PROPS['C04']['traces'].append(goal_family('goalsbatch', ['BatchPieceOrphan', 'SyncBatchThenLoss', 'Bug_FinBatch0', 'Bug_BatchFlushPublishes']))
PROPS['C01']['traces'].append(goal_family('goalsmap', ['Bug_BatchPutAfterDelete', 'Bug_MergeKeepsBatchId']))
PROPS['C06']['traces'].append(goal_family('goalsmerge', ['EmptyMergeAfterAdopt', 'TwoCycles', 'GiveUpThenAdopt', 'OrphanTombstone', 'Bug_MergeKeepsBatchId', 'Bug_LazyHint'], thorough_goals=['Bug_LeftoverKept']))
PROPS['C07']['traces'].append(goal_family('goalsadopt', ['AdoptHalf', 'AdoptHintMoved', 'AdoptUnmarked', 'AdoptTwice', 'Bug_AdoptPinnedOrder', 'Bug_AdoptBreaks'], thorough_goals=['LeftoverThenAdopt', 'Bug_LeftoverKept']))
PROPS['C04']['traces'].append(gen_family('genbatch', GEN_BATCH, enforce=['recok', 'view', 'c13batch']))
PROPS['C07']['traces'].append(gen_family('genmergecrash', GEN_MERGEC))
PROPS['C06']['traces'].append(gen_family('genmerge', GEN_MERGE))
PROPS['C01']['traces'].append(gen_family('genmap', GEN_MAP))
# Backup at quiescent instants of generated behaviours (the copy, opened on its own, is shown as a view of that instant)
GEN_BACKUP = [dict(consts=dict(Features='{"batch", "delete", "restart", "merge", "backup"}', MaxOps=8, MaxFaults=0, MaxMerges=2, MaxRestarts=2, MaxBatch=2, Limits='{1, 2, 3}'), num=200, thorough_num=2000, depth=100)]
PROPS['C20']['traces'].append(gen_family('genbackup', GEN_BACKUP, enforce=['view', 'recok']))
PROPS['C13']['traces'].append(gen_family('gensync', GEN_SYNC, enforce=['c13always', 'c13batch', 'c13sync', 'c13rot', 'view']))
def syncrace_sig(e):
    if e.get('ev') == 'ret':
        return ('ret', e.get('c'), e.get('op'), e.get('err'))
    if e.get('ev') == 'io':
        return ('io', e.get('c'), e.get('kind'))
    return None
# two clients, one parked at the entry of its fsync while the other writes (as far as the locks allow)
PROPS['C13']['traces'].append(dict(profile='syncrace', spec='SyncConcTrace', enforce=['c13always', 'c13threshold', 'outcome', 'liverec'], sig=syncrace_sig,
                                   deterministic=False, quick_seeds=1, thorough_seeds=2))
# the same executions end with a quiescent instant: live mapping = recovered mapping (C08), with a Sync batch parked inside its fsync
PROPS['C04']['traces'].append(dict(profile='syncrace', name='syncquiesce', spec='SyncConcTrace', enforce=['liverec'], sig=syncrace_sig,
                                   deterministic=False, quick_seeds=1, thorough_seeds=1))
PROPS['C08']['traces'].append(dict(profile='syncrace', name='syncquiesce', spec='SyncConcTrace', enforce=['liverec'], sig=syncrace_sig,
                                   deterministic=False, quick_seeds=1, thorough_seeds=2))
