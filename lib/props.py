"""Per-property description of what bin/check runs: exhaustive TLC configurations of the specification,
driver profiles, the trace specification that judges their traces and the checks it enforces."""

MC_HEAD = '''SPECIFICATION Spec
CONSTANTS
  Keys = {Keys}
  Vals = {Vals}
  BigVals = {BigVals}
  Limit = {Limit}
  MaxOps = {MaxOps}
  MaxBatch = {MaxBatch}
  MaxFaults = {MaxFaults}
  MaxMerges = {MaxMerges}
  MaxRestarts = {MaxRestarts}
  SyncAlways = {SyncAlways}
  Features = {Features}
  Bug = {Bug}
CHECK_DEADLOCK FALSE
'''

def xixi_mc(name, invariants, properties=(), quick=None, thorough=None, **consts):
    base = dict(Keys='{1, 2}', Vals='{1, 2, 3}', BigVals='{3}', Limit=2, MaxOps=4, MaxBatch=3, MaxFaults=0,
                MaxMerges=1, MaxRestarts=1, SyncAlways='FALSE', Features='{"batch", "merge", "restart", "delete", "sync"}', Bug='{}')
    base.update(consts)
    cfg = MC_HEAD + 'INVARIANTS ' + ' '.join(invariants) + '\n'
    if properties:
        cfg += 'PROPERTIES ' + ' '.join(properties) + '\n'
    return dict(module='XiXiKV', name=name, cfg=cfg, consts=base, quick=quick or {}, thorough=thorough or {}, workers=12, timeout=1500, xmx='12g')

ALL_INV = ['MapSemantics', 'QuiescentLiveEqualsRecovered', 'RecoveredOK', 'NeverFails', 'AccountingExact',
           'FileSizeRespected', 'SyncObligations', 'LockDiscipline']

PROPS = {}

PROPS['C01'] = dict(
    level='model_checking',
    mc=[xixi_mc('MC_Map', ['MapSemantics', 'QuiescentLiveEqualsRecovered', 'RecoveredOK', 'NeverFails'],
                quick=dict(MaxOps=4), thorough=dict(MaxOps=5))],
    traces=[dict(profile='map', spec='EngineTrace',
                 enforce=['res', 'bres', 'open', 'vals', 'keys', 'fold', 'scan', 'index'],
                 quick_seeds=1, thorough_seeds=3)],
    assumptions=['value identity = SHA-1 of the bytes (driver side); the TLA+ model compares identities',
                 'TLC explores the mechanism model exhaustively only for the bounded constants listed in mc_runs'],
)
