"""Shared machinery of /verif/bin/check: build, TLC runs, trace validation, verdicts, evidence."""
import os, sys, json, subprocess, time, shutil, re, hashlib, glob

VERIF = os.path.dirname(os.path.dirname(os.path.abspath(__file__)))
REPO = '/repo'
JAR = '/opt/veriftools/tla/tla2tools.jar:/opt/veriftools/tla/CommunityModules-deps.jar'
GOENV = dict(GOFLAGS='-mod=mod', GOPROXY='off', GOSUMDB='off', GOTOOLCHAIN='local')

class Infra(Exception):
    pass

def log(*a):
    print('[check]', *a, flush=True)

class Ctx:
    def __init__(self, pid, tier, seed, keep=False):
        self.id, self.tier, self.seed, self.keep = pid, tier, seed, keep
        self.t0 = time.time()
        base = '/dev/shm' if os.access('/dev/shm', os.W_OK) else os.path.join(VERIF, '.work')
        self.work = os.path.join(base, 'verif-%s-%d' % (pid, os.getpid()))
        shutil.rmtree(self.work, ignore_errors=True)
        os.makedirs(self.work)
        self.specdir = os.path.join(self.work, 'spec')
        shutil.copytree(os.path.join(VERIF, 'spec'), self.specdir)
        self.known = load_known()
        self.known_used = {}
        self.cov = dict(states=0, transitions=0, traces_validated_against_impl=0, evaluations=0,
                        distinct_nontrivial=0, samples=[], mc_runs=[], trace_runs=[])
        self.sigs = set()
        self.violations = []
        self.budget = float(os.environ.get('VERIF_BUDGET_S', '0')) or (150 if tier == 'quick' else 1500)

    def quick(self):
        return self.tier == 'quick'

    def elapsed(self):
        return time.time() - self.t0

    def cleanup(self):
        if not self.keep:
            shutil.rmtree(self.work, ignore_errors=True)
        else:
            log('kept', self.work)

# ------------------------------------------------------------------ known findings
def load_known():
    p = os.path.join(VERIF, 'known_findings.json')
    if not os.path.exists(p):
        return []
    return json.load(open(p)).get('findings', [])

def known_ids(ctx):
    return [k['id'] for k in ctx.known if k.get('status') == 'finding' and (k.get('property') == ctx.id or ctx.id in k.get('also', []))]

# ------------------------------------------------------------------ build
def build_driver(ctx, race=False):
    hd = os.path.join(VERIF, 'harness')
    out = os.path.join(ctx.work, 'driver-race' if race else 'driver')
    if os.path.exists(out):
        return out
    repo = REPO
    dev = os.environ.get('VERIF_DEV_REPO')   # development aid (bin/seedcheck, bin/mutcheck): a scratch worktree instead of /repo
    if dev:
        repo = dev
        hd2 = os.path.join(ctx.work, 'harness-dev')
        if not os.path.exists(hd2):
            shutil.copytree(hd, hd2)
            gm = open(os.path.join(hd2, 'go.mod')).read().replace('=> /repo', '=> ' + dev)
            open(os.path.join(hd2, 'go.mod'), 'w').write(gm)
        hd = hd2
    try:
        shutil.copyfile(os.path.join(repo, 'go.sum'), os.path.join(hd, 'go.sum'))
    except OSError:
        pass
    env = dict(os.environ, **GOENV)
    cmd = ['go', 'build', '-tags', 'verif'] + (['-race'] if race else []) + ['-o', out, './cmd/driver']
    t = time.time()
    r = subprocess.run(cmd, cwd=hd, env=env, capture_output=True, text=True)
    if r.returncode != 0:
        raise Infra('harness build failed (the tree under /repo does not compile with -tags verif?):\n' + r.stderr[-3000:])
    log('built driver%s in %.1fs' % (' (race)' if race else '', time.time() - t))
    return out

# ------------------------------------------------------------------ TLC
def tlc(ctx, module, cfgtext, workers=1, timeout=600, xmx='6g', extra=None, name=None):
    name = name or module
    cfgpath = os.path.join(ctx.specdir, name + '.cfg')
    open(cfgpath, 'w').write(cfgtext)
    meta = os.path.join(ctx.work, 'meta-%s-%d' % (name, int(time.time() * 1000) % 100000000))
    cmd = ['java', '-XX:+UseParallelGC', '-Xmx' + xmx, '-Xss64m', '-cp', JAR, 'tlc2.TLC',
           '-workers', str(workers), '-metadir', meta, '-config', cfgpath] + (extra or []) + [module]
    t = time.time()
    try:
        r = subprocess.run(cmd, cwd=ctx.specdir, capture_output=True, text=True, timeout=timeout)
    except subprocess.TimeoutExpired:
        raise Infra('TLC timed out after %ds on %s' % (timeout, name))
    finally:
        shutil.rmtree(meta, ignore_errors=True)
    out = r.stdout + r.stderr
    res = dict(rc=r.returncode, out=out, wall=time.time() - t, states=0, distinct=0)
    m = re.findall(r'(\d+) states generated, (\d+) distinct states found', out)
    if m:
        res['states'], res['distinct'] = int(m[-1][0]), int(m[-1][1])
    return res

def subst_cfg(cfg, consts):
    """{Name} placeholders; two passes, so that a value may itself refer to another constant (Limits = {{Limit}})"""
    for _ in range(2):
        for k, v in consts.items():
            cfg = cfg.replace('{' + k + '}', str(v))
    return cfg

def run_mc(ctx, mc):
    """Exhaustive model checking of one bounded configuration of the specification."""
    consts = dict(mc.get('consts', {}))
    consts.update(mc.get(ctx.tier, {}))
    cfg = subst_cfg(mc['cfg'], consts)
    res = tlc(ctx, mc['module'], cfg, workers=mc.get('workers', 8), timeout=mc.get('timeout', 900),
              xmx=mc.get('xmx', '8g'), name=mc['name'], extra=mc.get('extra'))
    if res['rc'] != 0:
        # a failing specification is a problem of the machinery, never a verdict about the code
        p = os.path.join(VERIF, 'replays', ctx.id)
        os.makedirs(p, exist_ok=True)
        open(os.path.join(p, 'mc-%s.out' % mc['name']), 'w').write(res['out'])
        raise Infra('model checking of %s failed (rc=%d); output in %s' % (mc['name'], res['rc'], p) + '\n' + res['out'][-2500:])
    ctx.cov['states'] += res['distinct']
    ctx.cov['transitions'] += res['states']
    ctx.cov['mc_runs'].append(dict(config=mc['name'], constants=consts, states_generated=res['states'],
                                   distinct_states=res['distinct'], wall_s=round(res['wall'], 1)))
    log('MC %s: %d generated / %d distinct states in %.1fs' % (mc['name'], res['states'], res['distinct'], res['wall']))
    return res

TRACE_CFG = '''SPECIFICATION Spec
CONSTANTS
  TraceFile = "%s"
  Enforce = {%s}
%s
CONSTRAINT HW
POSTCONDITION Accepted
CHECK_DEADLOCK FALSE
'''

def validate(ctx, spec, tracefile, enforce, consts='', timeout=1200, chunk=0):
    """TLC trace validation. Returns dict(accepted, line, failed, known_used, states).
    chunk > 0: the file is validated in pieces of at most about that many lines, cut at reset events (every trace
    specification starts afresh at a reset); TLC cannot follow behaviours longer than 65535 states once its queue
    spills to disk, and a history with silent steps is longer than its number of lines."""
    if chunk:
        lines = [l for l in read_lines(tracefile) if l.strip()]
        if len(lines) > chunk:
            total = dict(accepted=True, line=None, failed=[], known_used=[], states=0, out='', wall=0.0)
            start = 0
            t0 = time.time()
            while start < len(lines):
                end = min(start + chunk, len(lines))
                while end < len(lines) and '"ev":"reset"' not in lines[end]:
                    end += 1
                part = tracefile + '.part'
                open(part, 'w').write('\n'.join(lines[start:end]) + '\n')
                r = validate(ctx, spec, part, enforce, consts=consts, timeout=max(60, timeout - int(time.time() - t0)))
                total['known_used'] += r['known_used']
                total['states'] += r['states']
                total['out'] = r['out']
                if not r['accepted']:
                    total.update(accepted=False, line=start + r['line'], failed=r['failed'])
                    break
                start = end
            total['wall'] = time.time() - t0
            os.remove(part)
            return total
    enf = ', '.join('"%s"' % e for e in enforce)
    kn = ', '.join('"%s"' % k for k in known_ids(ctx))
    ctext = consts.replace('{Known}', '{' + kn + '}')
    cfg = TRACE_CFG % (tracefile, enf, ctext)
    res = tlc(ctx, spec, cfg, workers=1, timeout=timeout, name=spec + '_tv')
    out = res['out']
    known_used = re.findall(r'<<"KNOWN-FINDING-USED", "([^"]+)"(?:, ([^>]*))?>>', out)
    failed = re.findall(r'<<"CHECK-FAILED", "line", (\d+), "([^"]+)">>', out)
    m = re.search(r'<<"REJECT at line", (\d+)', out)
    if res['rc'] == 0 and not m:
        return dict(accepted=True, line=None, failed=[], known_used=known_used, states=res['distinct'], out=out, wall=res['wall'])
    if m:
        line = int(m.group(1))
        f = sorted(set(n for (ln, n) in failed if int(ln) == line)) or ['no-enabled-action']
        return dict(accepted=False, line=line, failed=f, known_used=known_used, states=res['distinct'], out=out, wall=res['wall'])
    raise Infra('TLC trace validation failed to run (rc=%d):\n%s' % (res['rc'], out[-3000:]))

# ------------------------------------------------------------------ drivers
def run_driver(ctx, driver, profile, tracefile, seed, args=None, timeout=900, env=None):
    wd = os.path.join(ctx.work, 'drv-%s-%d' % (profile, seed))
    shutil.rmtree(wd, ignore_errors=True)
    for p in (tracefile, tracefile + '.summary.json'):
        if os.path.exists(p):
            os.remove(p)
    cmd = [driver, profile, '-seed', str(seed), '-tier', ctx.tier, '-out', tracefile, '-work', wd] + (args or [])
    t = time.time()
    errp = tracefile + '.stderr'
    overflow = False
    with open(errp, 'w') as ef:
        # the scratch directory lives in memory (/dev/shm): an engine that writes gigabytes (e.g. a backup of files that
        # were left extended to their mapping size) must not take the machine down - the driver is stopped when its
        # scratch directory outgrows the cap; what it had recorded up to then is still validated
        p = subprocess.Popen(cmd, stdout=ef, stderr=ef, env=dict(os.environ, **(env or {})))
        cap = int(os.environ.get('VERIF_SCRATCH_CAP_MB', '6000')) * (1 << 20)
        while True:
            try:
                rc = p.wait(timeout=0.5)
                break
            except subprocess.TimeoutExpired:
                pass
            if time.time() - t > timeout:
                p.kill(); p.wait()
                shutil.rmtree(wd, ignore_errors=True)
                raise Infra('driver %s timed out after %ds' % (profile, timeout))
            if scratch_bytes(wd) > cap:
                p.kill(); p.wait()
                rc = -9
                overflow = True
                break
    shutil.rmtree(wd, ignore_errors=True)
    died = None
    if rc != 0:
        full = open(errp, errors='replace').read()
        # an engine death inside an API call is real-code behaviour: append a "died" event.
        # The Go runtime prints the reason and then the faulting goroutine first.
        pos = min([p for p in (full.find('fatal error'), full.find('panic:'), full.find('[signal ')) if p >= 0] or [-1])
        tail = full[max(0, pos - 200):pos + 8000] if pos >= 0 else full[-6000:]
        engine = pos >= 0 and ('XiXi-2024/xixi-kv' in tail or '/repo/' in tail)
        if engine:
            with open(tracefile, 'a') as f:
                f.write(json.dumps({'ev': 'died', 'rc': rc}) + '\n')
            died = tail
        else:
            # the driver ended for a reason that is not the engine's (killed: out of memory, scratch cap). The events
            # it recorded before are a genuine execution prefix: they are validated as far as they go (an incomplete
            # last line is dropped), and only if that prefix is accepted is the death an infrastructure problem
            keep = []
            if os.path.exists(tracefile):
                for ln in open(tracefile, errors='replace').read().split('\n'):
                    try:
                        json.loads(ln)
                        keep.append(ln)
                    except ValueError:
                        pass
            open(tracefile, 'w').write('\n'.join(keep) + ('\n' if keep else ''))
            why = 'its scratch directory outgrew %d MB' % (cap >> 20) if overflow else 'rc=%d without an engine frame' % rc
            return dict(rc=rc, died=None, wall=time.time() - t, summary={}, stderr=errp,
                        infra='driver %s ended early (%s):\n%s' % (profile, why, tail[-2000:]))
    summ = {}
    if os.path.exists(tracefile + '.summary.json'):
        summ = json.load(open(tracefile + '.summary.json'))
    return dict(rc=rc, died=died, wall=time.time() - t, summary=summ, stderr=errp)

def scratch_bytes(path):
    """allocated bytes under path (sparse files count what they occupy)"""
    tot = 0
    for root, dirs, files in os.walk(path):
        for f in files:
            try:
                tot += os.lstat(os.path.join(root, f)).st_blocks * 512
            except OSError:
                pass
    return tot

def read_lines(path):
    with open(path) as f:
        return f.read().split('\n')

def event_sig(e):
    if e.get('ev') == 'op':
        n = e.get('n', 0)
        cls = 0 if n == 0 else 1 if n < 64 else 2 if n < 4096 else 3 if n < 32768 else 4
        return ('op', e.get('op'), e.get('err'), cls, e.get('k', 0) == 0)
    return None

def account_trace(ctx, tracefile, sig=None, sample_events=4, trace_event='reset'):
    """Counts traces/events/distinct non-trivial cases of a trace file into the coverage record."""
    ntr = nev = 0
    cfg = None
    sample = []
    for ln in open(tracefile):
        ln = ln.strip()
        if not ln:
            continue
        nev += 1
        try:
            e = json.loads(ln)
        except ValueError:
            continue
        if e.get('ev') == trace_event:
            ntr += 1
        if e.get('ev') in ('op', 'call', 'reset') and 'cfg' in e and (e.get('ev') == 'reset' or e.get('op') == 'Open'):
            c = e['cfg']; cfg = (c.get('index'), c.get('shards'), c.get('io'), c.get('limit'), c.get('sync'))
        s = (sig or event_sig)(e)
        if s is not None:
            ctx.sigs.add((s, cfg))
        if len(sample) < sample_events and e.get('ev') in ('op', 'io', 'crashrec', 'case', 'call'):
            sample.append(e)
    ctx.cov['traces_validated_against_impl'] += ntr
    ctx.cov['evaluations'] += nev
    if sample and len(ctx.cov['samples']) < 6:
        ctx.cov['samples'].append({'trace_fragment': sample})
    return ntr, nev

# ------------------------------------------------------------------ verdict plumbing
def save_replay(ctx, tracefile, res, profile, seed, extra=None):
    lines = read_lines(tracefile)
    line = res['line']
    digest = hashlib.sha1(('%s|%s|%s|%s' % (ctx.id, profile, seed, line)).encode()).hexdigest()[:12]
    d = os.path.join(VERIF, 'replays', ctx.id, digest)
    os.makedirs(d, exist_ok=True)
    # keep the trace the rejected event belongs to (from its reset line), up to the rejected line
    start = line
    while start > 1 and '"ev":"reset"' not in lines[start - 1]:
        start -= 1
    with open(os.path.join(d, 'trace.ndjson'), 'w') as f:
        f.write('\n'.join(lines[start - 1:line]) + '\n')
    open(os.path.join(d, 'tlc.out'), 'w').write(res['out'][-20000:])
    meta = dict(property=ctx.id, profile=profile, seed=seed, tier=ctx.tier, rejected_line_in_saved_trace=line - start + 1,
                failed_checks=res['failed'], rejected_event=lines[line - 1][:4000] if line - 1 < len(lines) else '<end of trace>',
                how_to_replay='bin/check %s --replay %s' % (ctx.id, d))
    if extra:
        meta.update(extra)
    json.dump(meta, open(os.path.join(d, 'meta.json'), 'w'), indent=1)
    return d

def note_known(ctx, used):
    for kid, _ in used:
        ctx.known_used[kid] = ctx.known_used.get(kid, 0) + 1

def run_trace_family(ctx, fam, driver):
    """Runs one driver profile and validates its trace. Returns list of violations (dicts)."""
    spec, enforce = fam['spec'], fam['enforce']
    seeds = fam.get(ctx.tier + '_seeds', fam.get('seeds', 1))
    viol = []
    for i in range(seeds):
        seed = ctx.seed * 1000 + i
        tf = os.path.join(ctx.work, '%s-%d.ndjson' % (fam['profile'], seed))
        args = list(fam.get('args', [])) + list(fam.get(ctx.tier + '_args', []))
        env = None
        if fam.get('race'):
            rl = os.path.join(ctx.work, 'racelog-%d' % seed)
            for f in glob.glob(rl + '*'):
                os.remove(f)
            env = dict(GORACE='log_path=%s halt_on_error=0 exitcode=0' % rl, VERIF_RACE_LOG=rl)
        if 'prepare' in fam:      # spec -> code: TLC generates the behaviours the driver replays
            env = dict(env or {}, **fam['prepare'](ctx, fam, seed))
        d = run_driver(ctx, driver, fam['profile'], tf, seed, args=args, timeout=fam.get('driver_timeout', 1500), env=env)
        res = validate(ctx, spec, tf, enforce, consts=fam.get('consts', ''), timeout=fam.get('tlc_timeout', 1500), chunk=fam.get('chunk', 0))
        if d.get('infra') and res['accepted']:
            raise Infra(d['infra'])
        ntr, nev = account_trace(ctx, tf, sig=fam.get('sig'), trace_event=fam.get('trace_event', 'reset'))
        note_known(ctx, res['known_used'])
        ctx.cov['trace_runs'].append(dict(profile=fam['profile'], seed=seed, traces=ntr, events=nev, accepted=res['accepted'],
                                          driver_s=round(d['wall'], 1), tlc_s=round(res['wall'], 1), summary=d['summary']))
        log('%s seed=%d: %d traces, %d events, driver %.1fs, TLC %.1fs -> %s' % (
            fam['profile'], seed, ntr, nev, d['wall'], res['wall'], 'accepted' if res['accepted'] else 'REJECTED line %s %s' % (res['line'], res['failed'])))
        if not res['accepted']:
            # reproduce before reporting: sequential drivers are deterministic given the seed
            if fam.get('deterministic', True):
                # the engine itself has seed-independent nondeterminism (Go map iteration order in Merge, pool reuse),
                # so up to three re-runs are made; a rejection that never shows again is reported as exit 2, not as a verdict
                again = False
                for attempt in range(3):
                    tf2 = tf + '.again'
                    run_driver(ctx, driver, fam['profile'], tf2, seed, args=args, timeout=fam.get('driver_timeout', 1500), env=env)
                    res2 = validate(ctx, spec, tf2, enforce, consts=fam.get('consts', ''), timeout=fam.get('tlc_timeout', 1500), chunk=fam.get('chunk', 0))
                    if not res2['accepted']:
                        again = True
                        break
                if not again:
                    pth = save_replay(ctx, tf, res, fam['profile'], seed, extra=dict(spec=spec, enforce=enforce, consts=fam.get('consts', ''), note='did not reproduce in 3 re-runs'))
                    try:
                        err = open(d['stderr'], errors='replace').read()
                        open(os.path.join(pth, 'driver.stderr'), 'w').write(err[:100000] + ('\n...\n' + err[-100000:] if len(err) > 200000 else err[100000:]))
                    except OSError:
                        pass
                    raise Infra('rejection of %s seed %d did not reproduce in 3 re-runs (line %s, %s); the rejected trace is saved under replays/' % (fam['profile'], seed, res['line'], res['failed']))
            elif is_stuck_rejection(tf, res):
                # concurrent families are not reproducible by seed, but a verdict "stuck" comes from a watchdog, i.e. from
                # time: a frozen or starved machine must not produce it. A real deadlock shows again when the driver is
                # run again; if two further runs end without any stuck call, the first one is an infrastructure problem
                again = False
                for attempt in range(2):
                    tf2 = tf + '.again'
                    run_driver(ctx, driver, fam['profile'], tf2, seed + 7 * (attempt + 1), args=args, timeout=fam.get('driver_timeout', 1500), env=env)
                    res2 = validate(ctx, spec, tf2, enforce, consts=fam.get('consts', ''), timeout=fam.get('tlc_timeout', 1500), chunk=fam.get('chunk', 0))
                    if not res2['accepted'] and is_stuck_rejection(tf2, res2):
                        again = True
                        break
                if not again:
                    save_replay(ctx, tf, res, fam['profile'], seed, extra=dict(spec=spec, enforce=enforce, consts=fam.get('consts', ''), note='a stuck call that did not show again in 2 further runs'))
                    raise Infra('a call of %s seed %d was reported stuck by the watchdog, but no call was stuck in 2 further runs (line %s); the trace is saved under replays/' % (fam['profile'], seed, res['line']))
            path = save_replay(ctx, tf, res, fam['profile'], seed, extra=dict(spec=spec, enforce=enforce, consts=fam.get('consts', '')))
            try:
                with open(d['stderr'], errors='replace') as f:
                    err = f.read()
                open(os.path.join(path, 'driver.stderr'), 'w').write(err[:100000] + ('\n...\n' + err[-100000:] if len(err) > 200000 else err[100000:]))
            except OSError:
                pass
            viol.append(dict(path=path, failed=res['failed'], line=res['line']))
            break
        if ctx.elapsed() > ctx.budget and i + 1 < seeds:
            ctx.cov['budget_note'] = 'time budget reached after %d of %d seeds of %s' % (i + 1, seeds, fam['profile'])
            break
    return viol

def is_stuck_rejection(tracefile, res):
    """the rejected event reports a call that the watchdog gave up on"""
    try:
        ln = read_lines(tracefile)[res['line'] - 1]
    except (IndexError, TypeError):
        return False
    return '"stuck"' in ln or 'nostuck' in ln or res['failed'] == ['nostuck']

def write_evidence(ctx, prop, nviol):
    cov = ctx.cov
    cov['distinct_nontrivial'] = len(ctx.sigs)
    cov['rule'] = prop.get('rule', 'distinct (operation kind, outcome, value-size class, configuration) tuples seen in validated traces; trivial = none')
    cov['exhaustive'] = False
    cov['known_findings_used'] = ctx.known_used
    if not cov['samples']:
        cov['samples'] = [dict(note='no trace events recorded')]
    ev = dict(property_id=ctx.id, tier=ctx.tier, seed=ctx.seed, level=prop.get('level', 'model_checking'),
              coverage=cov, assumptions=prop.get('assumptions', []), wall_s=round(ctx.elapsed(), 1), violations=nviol)
    evdir = os.path.join(VERIF, 'evidence')
    if os.environ.get('VERIF_DEV_REPO') or os.environ.get('VERIF_DEV_SKIP_MC'):
        evdir = '/tmp/verif-dev-evidence'      # development runs (other tree / no model checking) never write real evidence
    os.makedirs(evdir, exist_ok=True)
    json.dump(ev, open(os.path.join(evdir, ctx.id + '.json'), 'w'), indent=1)

def run_proof(ctx, pr):
    """TLAPS proof of an inductive invariant of a specification (about the model, unbounded)."""
    t = time.time()
    try:
        r = subprocess.run(['tlapm', '--threads', '8', '--cleanfp', pr['module'] + '.tla'], cwd=ctx.specdir, capture_output=True, text=True, timeout=pr.get('timeout', 600))
    except (subprocess.TimeoutExpired, OSError) as e:
        raise Infra('tlapm did not finish on %s: %s' % (pr['module'], e))
    out = r.stdout + r.stderr
    m = re.search(r'All (\d+) obligations? proved', out)
    if not m:
        raise Infra('TLAPS proof %s failed:\n%s' % (pr['module'], out[-2000:]))
    n = int(m.group(1))
    ctx.cov.setdefault('proofs', []).append(dict(module=pr['module'], obligations=n, discharged=n, checker_cmd='tlapm --threads 8 --cleanfp %s.tla' % pr['module'],
                                                 theorem=pr.get('theorem', ''), wall_s=round(time.time() - t, 1)))
    log('TLAPS %s: all %d obligations proved in %.1fs' % (pr['module'], n, time.time() - t))

def run_property(ctx, prop):
    for pr in prop.get('proofs', []):
        if os.environ.get('VERIF_DEV_SKIP_MC'):
            continue
        run_proof(ctx, pr)
    for mc in prop.get('mc', []):
        if mc.get('tiers') and ctx.tier not in mc['tiers']:
            continue
        if os.environ.get('VERIF_DEV_SKIP_MC'):   # development aid only; never set by registered commands
            continue
        run_mc(ctx, mc)
    driver = None
    viol = []
    for fam in prop.get('traces', []):
        if fam.get('tiers') and ctx.tier not in fam['tiers']:
            continue
        only = os.environ.get('VERIF_DEV_ONLY')    # development aid only (with VERIF_DEV_SKIP_MC): one family by name/profile
        if only and os.environ.get('VERIF_DEV_SKIP_MC') and only not in (fam.get('name'), fam.get('profile')):
            continue
        driver = build_driver(ctx, race=fam.get('race', False))
        if 'run' in fam:
            viol += fam['run'](ctx, fam, driver)
        else:
            viol += run_trace_family(ctx, fam, driver)
    for kid, cnt in sorted(ctx.known_used.items()):
        what = next((k['what'] for k in ctx.known if k['id'] == kid), kid)
        print('KNOWN-FINDING: property=%s %s [%s, %d occurrence(s) in this run]' % (ctx.id, what, kid, cnt))
    write_evidence(ctx, prop, len(viol))
    for v in viol:
        print('VIOLATION property=%s replay=%s' % (ctx.id, v['path']))
        print('  failed checks: %s' % ', '.join(v['failed']))
    if not viol:
        log('%s %s: held on everything explored (%.0fs)' % (ctx.id, ctx.tier, ctx.elapsed()))
    return 1 if viol else 0

def replay(ctx, prop, path):
    meta = json.load(open(os.path.join(path, 'meta.json')))
    res = validate(ctx, meta['spec'], os.path.join(path, 'trace.ndjson'), meta['enforce'], consts=meta.get('consts', ''))
    if res['accepted']:
        print('replay: trace accepted (no violation)')
        return 0
    print('replay: rejected at line %s, failed checks %s' % (res['line'], res['failed']))
    print('VIOLATION property=%s replay=%s' % (ctx.id, path))
    return 1
