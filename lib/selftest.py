"""bin/check selftest: shows that the binding between specification and code is real and not vacuous.
  1. every Bug switch of the specifications makes TLC find a counterexample in a bounded configuration
     (the model can express the defect each property is about);
  2. a recorded real-engine trace that TLC accepts is rejected once a single logged field is altered,
     one event is deleted, or one intercepted I/O event is dropped.
Not a registered property check; exit 0 iff everything behaved as expected."""
import os, json, re, shutil
import vlib
from props import PROPS, xixi_mc, CONC_CFG, ITER_CFG, DT_CFG, DIRLOCK_CFG

XIXI_BUGS = [
    ('FinBatch0', dict(Features='{"batch", "restart"}', MaxMerges=0, MaxOps=4), ['QuiescentLiveEqualsRecovered', 'RecoveredOK']),
    ('BatchPutAfterDelete', dict(Features='{"batch", "delete"}', MaxMerges=0, MaxRestarts=0, MaxOps=5), ['MapSemantics']),
    ('MergeKeepsBatchId', dict(Features='{"batch", "merge", "restart"}', MaxOps=4, MaxRestarts=2, Vals='{1}', BigVals='{}'), ['QuiescentLiveEqualsRecovered', 'RecoveredOK']),
    ('MarkerUnreadable', dict(Features='{"merge", "restart"}', MaxOps=2), []),
    ('BatchNoTotal', dict(Features='{"batch"}', MaxMerges=0, MaxRestarts=0, MaxOps=4), ['AccountingExact']),
    ('BatchOverfill', dict(Features='{"batch"}', MaxMerges=0, MaxRestarts=0, MaxOps=5), ['FileSizeRespected']),
    ('SealAfterSync', dict(Features='{"batch", "syncbatch"}', MaxMerges=0, MaxRestarts=0, MaxOps=3), ['SyncBatchDurable']),
    ('AdoptPinnedOrder', dict(Features='{"merge", "crash", "restart", "delete"}', MaxOps=3, MaxFaults=2, Vals='{1}', BigVals='{}'), ['RecoveredOK', 'NeverFails']),
    ('OpenLeaksLock', dict(Features='{"powerloss", "torn"}', MaxOps=2, MaxFaults=1, MaxMerges=0, MaxRestarts=0, Bug2='"TornTailFails"'), ['LockDiscipline']),
    ('TornTailFails', dict(Features='{"powerloss", "torn"}', MaxOps=2, MaxFaults=1, MaxMerges=0, MaxRestarts=0), ['NeverFails']),
    ('MergeMarksUnflushed', dict(Features='{"merge", "delete", "powerloss", "restart"}', MaxOps=3, MaxFaults=1, Vals='{1, 2}', BigVals='{}'), ['RecoveredOK']),
    ('LeftoverKept', dict(Features='{"merge", "delete", "crash", "restart"}', MaxOps=4, MaxFaults=1, MaxMerges=2, MaxRestarts=2, Vals='{1}', BigVals='{}'), ['RecoveredOK', 'MapSemantics']),
    ('LazyHint', dict(Features='{"merge", "delete", "restart"}', MaxOps=3, MaxMerges=2, MaxRestarts=2, Vals='{1}', BigVals='{}'), ['RecoveredOK', 'MapSemantics']),
    ('AdoptBreaks', dict(Features='{"merge", "crash", "restart"}', Keys='{1, 2, 3}', Limit=1, MaxOps=5, MaxFaults=1, Vals='{1, 2}', BigVals='{}'), ['RecoveredOK', 'MapSemantics']),
    # (since the fix F30 the marker waits for the database lock, which an open batch holds: the early publication
    #  is only harmful together with the unflushed marker)
    ('BatchFlushPublishes', dict(Features='{"batch", "delete", "merge", "crash"}', MaxOps=4, MaxFaults=1, MaxRestarts=0, Vals='{1}', BigVals='{}', Bug2='"MergeMarksUnflushed"'), ['RecoveredOK']),
]

def expect_violation(ctx, mc, what):
    res = vlib.tlc(ctx, mc['module'], subst(mc), workers=mc.get('workers', 8), timeout=900, xmx='8g', name=mc['name'])
    ok = res['rc'] != 0 and ('is violated' in res['out'])
    m = re.search(r'(Invariant|Action property|Temporal property) (\w+) is violated', res['out'])
    print('  %-28s %s %s' % (what, 'counterexample found' if ok else 'NO COUNTEREXAMPLE (unexpected)', '(' + m.group(2) + ')' if m else ''))
    return ok

def subst(mc):
    consts = dict(mc.get('consts', {}))
    consts.update(mc.get('quick', {}))
    return vlib.subst_cfg(mc['cfg'], consts)

def run(a):
    ctx = vlib.Ctx('selftest', 'quick', 1)
    good = True
    try:
        print('1. Bug switches: TLC must find a counterexample')
        for bug, consts, invs in XIXI_BUGS:
            c = dict(consts)
            b2 = c.pop('Bug2', None)
            c['Bug'] = '{"%s"%s}' % (bug, (', ' + b2) if b2 else '')
            props = ['MergeDirGone'] if bug == 'MarkerUnreadable' else []
            mc = xixi_mc('ST_' + bug, invs or ['MapSemantics'], properties=props, quick=c)
            good &= expect_violation(ctx, mc, 'XiXiKV ' + bug)
        for bug in ['IndexOutsideLock', 'DeleteCheckUnlocked', 'ListKeysSizeLater', 'CloneUnderRLock', 'UnlockedReads', 'UnlockAroundSync', 'BgReadsUnlocked']:
            cfg = CONC_CFG.replace('Bug = {}', 'Bug = {"%s"}' % bug)
            mc = dict(module='MC_Conc', name='ST_Conc_' + bug, cfg=cfg, consts=dict(Invs='QuiescentLiveEqualsRecovered IndexShowsRegister GetReturnsRegister NoPanic NoInternalError NoDeadlock NoRace', Menu='MenuAll', Clients='{"a", "b", "c"}'))
            good &= expect_violation(ctx, mc, 'Conc ' + bug)
        mc = dict(module='Iter', name='ST_Iter', cfg=ITER_CFG.replace('FreshSkips = TRUE', 'FreshSkips = FALSE'), consts=dict(N=4, S=2, MaxCalls=2))
        good &= expect_violation(ctx, mc, 'Iter FreshSkips=FALSE')
        for bug in ['NoVersionInKey', 'HDelKeepsSize']:
            mc = dict(module='DataTypes', name='ST_DT_' + bug, cfg=DT_CFG.replace('Bug = {}', 'Bug = {"%s"}' % bug), consts=dict(Keys='{1}', MaxCmds=5))
            good &= expect_violation(ctx, mc, 'DataTypes ' + bug)
        mc = dict(module='DirLock', name='ST_DirLock', cfg=DIRLOCK_CFG.replace('Bug = {}', 'Bug = {"OpenLeaksLock"}'), consts=dict(Openers='{"p1g0", "p2g0"}', MaxSteps=6))
        good &= expect_violation(ctx, mc, 'DirLock OpenLeaksLock')
        mc = dict(module='DirLock', name='ST_DirLock2', cfg=DIRLOCK_CFG.replace('Bug = {}', 'Bug = {"EarlyFailLeaksLock"}'), consts=dict(Openers='{"p1g0", "p2g0"}', MaxSteps=6))
        good &= expect_violation(ctx, mc, 'DirLock EarlyFailLeaksLock')
        mc = dict(module='DirLock', name='ST_DirLock3', cfg=DIRLOCK_CFG.replace('Bug = {}', 'Bug = {"CloseUnlocksFirst"}'), consts=dict(Openers='{"p1g0", "p2g0"}', MaxSteps=8))
        good &= expect_violation(ctx, mc, 'DirLock CloseUnlocksFirst')
        mc = dict(module='DirLock', name='ST_DirLock4', cfg=DIRLOCK_CFG.replace('Bug = {}', 'Bug = {"MergeDropsLock"}'), consts=dict(Openers='{"p1g0", "p2g0"}', MaxSteps=8))
        good &= expect_violation(ctx, mc, 'DirLock MergeDropsLock')

        print('2. Tampering with an accepted real-engine trace: TLC must reject it')
        driver = vlib.build_driver(ctx)
        tf = os.path.join(ctx.work, 'st-map.ndjson')
        vlib.run_driver(ctx, driver, 'map', tf, 4242)
        enforce = PROPS['C01']['traces'][0]['enforce']
        res = vlib.validate(ctx, 'EngineTrace', tf, enforce)
        print('  %-40s %s' % ('untampered map trace', 'accepted' if res['accepted'] else 'REJECTED (unexpected)'))
        good &= res['accepted']
        lines = open(tf).read().split('\n')
        def tamper(name, fn):
            nonlocal good
            ls = fn(list(lines))
            p = os.path.join(ctx.work, 'st-%s.ndjson' % name)
            open(p, 'w').write('\n'.join(ls))
            r = vlib.validate(ctx, 'EngineTrace', p, enforce)
            print('  %-40s %s' % (name, 'rejected at line %s %s' % (r['line'], r['failed']) if not r['accepted'] else 'ACCEPTED (unexpected)'))
            good &= not r['accepted']
        def first(pred):
            return next(i for i, l in enumerate(lines) if l.strip() and pred(json.loads(l)))
        def flip_val(ls):
            i = first(lambda e: e['ev'] == 'dump' and any(v > 1 for v in e['vals']))
            e = json.loads(ls[i]); j = next(k for k, v in enumerate(e['vals']) if v > 1); e['vals'][j] += 1; ls[i] = json.dumps(e); return ls
        def drop_op(ls):
            i = first(lambda e: e['ev'] == 'op' and e['op'] == 'Put' and e['k'] > 0)
            del ls[i]; return ls
        def shift_index(ls):
            i = first(lambda e: e['ev'] == 'dump' and any(x['f'] >= 0 for x in e['index']))
            e = json.loads(ls[i]); j = next(k for k, x in enumerate(e['index']) if x['f'] >= 0); e['index'][j]['o'] += 1; ls[i] = json.dumps(e); return ls
        def wrong_get(ls):
            i = first(lambda e: e['ev'] == 'op' and e['op'] == 'Get' and e['err'] == 'ok')
            e = json.loads(ls[i]); e['res'] += 1; ls[i] = json.dumps(e); return ls
        tamper('one dumped value altered', flip_val)
        tamper('one Put event deleted', drop_op)
        tamper('one index offset altered', shift_index)
        tamper('one Get result altered', wrong_get)

        tf2 = os.path.join(ctx.work, 'st-sync.ndjson')
        vlib.run_driver(ctx, driver, 'sync', tf2, 4242)
        enf2 = PROPS['C13']['traces'][0]['enforce']
        consts = PROPS['C13']['traces'][0]['consts']
        r = vlib.validate(ctx, 'CrashTrace', tf2, enf2, consts=consts)
        print('  %-40s %s' % ('untampered sync trace', 'accepted' if r['accepted'] else 'REJECTED (unexpected)'))
        good &= r['accepted']
        l2 = open(tf2).read().split('\n')
        # drop the first intercepted sync event that follows a write under strategy "always" (= a removed hook)
        always = False
        for i, l in enumerate(l2):
            if not l.strip():
                continue
            e = json.loads(l)
            if e['ev'] == 'reset':
                always = e['cfg']['sync'] == 'always'
            if always and e['ev'] == 'io' and e['kind'] == 'sync' and e['d'] == 0 and json.loads(l2[i - 1]).get('kind') == 'write':
                del l2[i]
                break
        p = os.path.join(ctx.work, 'st-sync-dropped.ndjson')
        open(p, 'w').write('\n'.join(l2))
        r = vlib.validate(ctx, 'CrashTrace', p, enf2, consts=consts)
        print('  %-40s %s' % ('one intercepted sync event dropped', 'rejected at line %s %s' % (r['line'], r['failed']) if not r['accepted'] else 'ACCEPTED (unexpected)'))
        good &= not r['accepted']
    finally:
        ctx.cleanup()
    print('selftest:', 'all as expected' if good else 'SOMETHING UNEXPECTED')
    return 0 if good else 1
