#!/bin/bash
# Runs the repository's pinned test suite with the verif guard OFF and checks that all 63 baseline tests pass.
export GOFLAGS=-mod=mod GOPROXY=off GOSUMDB=off GOTOOLCHAIN=local
cd /repo || exit 2
out=$(mktemp)
go test -mod=mod -json -vet=off -count=1 -timeout 25m ./... > "$out" 2>&1
python3 - "$out" <<'PY'
import json,sys
base=set(json.load(open('/root/.vp/BASELINE.json'))['stable_pass'])
res={}
for line in open(sys.argv[1]):
    try: e=json.loads(line)
    except Exception: continue
    if e.get('Test') and e.get('Action') in('pass','fail','skip'):
        res[e['Package']+'::'+e['Test']]=e['Action']
bad=[t for t in sorted(base) if res.get(t)!='pass']
print("baseline: %d/%d pass"%(len(base)-len(bad),len(base)))
for t in bad: print("NOT PASSING:",t,res.get(t))
sys.exit(1 if bad else 0)
PY
rc=$?
rm -f "$out"
exit $rc
