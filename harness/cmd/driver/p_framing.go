package main

import (
	"bytes"
	"crypto/sha1"
	"encoding/binary"
	"encoding/hex"
	"errors"
	"io"
	"math/rand"
	"os"

	"github.com/XiXi-2024/xixi-kv/datafile"
	"github.com/XiXi-2024/xixi-kv/fio"
	"verifharness/h"
)

// Profile framing (C11): one implementation test per case of the framing
// model. A real DataFile is brought to a chosen end state (block, offset)
// with a filler record; records of boundary-directed lengths are appended
// singly or as one multi-record flush, under both I/O back-ends; reported
// positions, sizes, sequential and random read-back and file hashes are
// logged. FramingTrace recomputes every number with the real constants.
func init() { profiles["framing"] = profFraming }

type frec struct {
	kind       string // log | hint
	klen, vlen int
	bt         uint64
	typ        byte
	key, val   []byte
	pos        *datafile.DataPos // reported at write time (log records)
	hpos       datafile.DataPos  // hint records: the position stored in the hint
}

func fill(r *rand.Rand, n int) []byte {
	b := make([]byte, n)
	r.Read(b)
	return b
}

// fillerFor returns value lengths (key length 3) of filler records bringing an empty file to block b, offset e.
func fillerFor(b, e int) (int, bool) {
	const klen = 3
	var n int // payload length of the filler record
	switch {
	case b == 0 && e == 0:
		return -1, true // no filler
	case b == 0:
		n = e - h.ChunkHdr
	case e == 0:
		n = b * (h.BlockSize - h.ChunkHdr)
	case e > h.ChunkHdr:
		n = b*(h.BlockSize-h.ChunkHdr) + (e - h.ChunkHdr)
	default:
		return 0, false
	}
	for v := n - klen - 4 - 6; v <= n-klen-4+6; v++ {
		if v >= 0 && h.RecLen(klen, v) == n {
			return v, true
		}
	}
	return 0, false
}

type fcase struct {
	b, e  int
	recs  []frec
	flush bool
	base  int // the file begins with this many blocks of a hole (sparse): block numbers beyond 2^17 (offsets beyond 4 GiB)
}

func runCase(en *Env, c fcase, ioName string, seed int64) (h.Ev, string, bool) {
	r := rand.New(rand.NewSource(seed))
	dir := en.FreshDir()
	defer en.Drop(dir)
	os.MkdirAll(dir, 0755)
	ioType := fio.StandardFIO
	if ioName == "mmap" {
		ioType = fio.MemoryMap
	}
	header := make([]byte, datafile.MaxLogRecordHeaderSize)
	hintBuf := make([]byte, datafile.MaxLogRecordPosSize)
	ev := h.Ev{"ev": "case", "io": ioName, "flush": c.flush}
	fail := func(msg string) (h.Ev, string, bool) { return nil, msg, false }
	baseBytes := int64(c.base) * h.BlockSize
	if c.base > 0 {
		if f, err := os.Create(datafile.GetFileName(dir, 1, datafile.DataFileSuffix)); err == nil {
			f.Truncate(baseBytes)
			f.Close()
		}
	}
	df, err := datafile.OpenFile(dir, 1, datafile.DataFileSuffix, ioType)
	if err != nil {
		return fail(err.Error())
	}
	nf := 0
	if v, ok := fillerFor(c.b, c.e); !ok {
		df.Close()
		return fail("unreachable")
	} else if v >= 0 {
		if _, err := df.WriteLogRecord(&datafile.LogRecord{Key: []byte("fil"), Value: fill(r, v)}, header); err != nil {
			return fail(err.Error())
		}
		nf = 1
	}
	abs := df.Size() - baseBytes
	if abs != int64(c.b)*h.BlockSize+int64(c.e) {
		df.Close()
		return fail("filler missed")
	}
	// (offsets are logged relative to the end of the hole and block numbers minus its blocks: the layout arithmetic
	// is periodic in the block size, and TLC's integers end at 2^31)
	ev["abs"] = abs
	ev["noseq"] = c.base > 0 // the sequential reader cannot be started behind the hole
	recs := make([]frec, len(c.recs))
	copy(recs, c.recs)
	for i := range recs {
		recs[i].key = fill(r, recs[i].klen)
		recs[i].val = fill(r, recs[i].vlen)
	}
	panicked := ""
	gname := h.Guard(h.CallTimeout, func() error {
		if c.flush {
			for i := range recs {
				df.WriteStagedLogRecord(&datafile.LogRecord{Key: recs[i].key, Value: recs[i].val, Type: recs[i].typ, BatchID: recs[i].bt}, header)
			}
			poss, err := df.FlushStaged()
			if err != nil || len(poss) != len(recs) {
				panicked = "flusherr"
				return nil
			}
			for i := range recs {
				recs[i].pos = poss[i]
			}
		} else {
			for i := range recs {
				if recs[i].kind == "hint" {
					recs[i].hpos = datafile.DataPos{Fid: uint32(r.Intn(3000)), BlockID: uint32(r.Intn(70000)), Offset: uint32(r.Intn(h.BlockSize)), Size: uint32(r.Intn(1 << 20))}
					if err := df.WriteHintRecord(recs[i].key, hintBuf, &recs[i].hpos); err != nil {
						panicked = "writeerr"
						return nil
					}
				} else {
					if i > 0 && (seed+int64(i))%5 == 0 {
						// an append that the back-end refuses (nothing is stored, the error is returned - a full disk, a quota):
						// it must leave the file as it was, the appends that follow land where they would have landed
						inner := df.ReadWriter
						df.ReadWriter = refusing{inner}
						_, err := df.WriteLogRecord(&datafile.LogRecord{Key: []byte("refused"), Value: fill(r, 1+r.Intn(3*h.BlockSize))}, header)
						df.ReadWriter = inner
						if err == nil {
							panicked = "refusedok"
							return nil
						}
					}
					p, err := df.WriteLogRecord(&datafile.LogRecord{Key: recs[i].key, Value: recs[i].val, Type: recs[i].typ, BatchID: recs[i].bt}, header)
					if err != nil {
						panicked = "writeerr"
						return nil
					}
					recs[i].pos = p
				}
			}
		}
		return nil
	})
	if gname == "panic" || gname == "stuck" {
		panicked = gname
	}
	if gname == "stuck" {
		// a writer that makes no progress: log the case as it stands and stop (the goroutine cannot be stopped)
		ev["logical"], ev["physical"], ev["recs"], ev["seq"], ev["seqerr"], ev["rd"], ev["xio"] = 0, 0, []int{}, []int{}, "stuck", []bool{}, true
		en.T.Emit(ev)
		h.ExitIfStuck("stuck", en.T)
	}
	logical := df.Size()
	df.Close()
	var physical int64 = -1
	name := datafile.GetFileName(dir, 1, datafile.DataFileSuffix)
	if fi, err := os.Stat(name); err == nil {
		physical = fi.Size()
	}
	ev["logical"], ev["physical"] = logical-baseBytes, physical-baseBytes
	// read back through a freshly opened file
	seq := []map[string]any{}
	rd := []bool{}
	seqerr := "ok"
	if panicked != "" {
		seqerr = panicked
	}
	func() {
		defer func() {
			if x := recover(); x != nil {
				seqerr = "panic"
			}
		}()
		df2, err := datafile.OpenFile(dir, 1, datafile.DataFileSuffix, ioType)
		if err != nil {
			seqerr = "openerr"
			return
		}
		defer df2.Close()
		if df2.Size() != logical {
			seqerr = "reopen-size"
		}
		if c.base > 0 {
			// behind a hole only the positional reads are possible
			for i := range recs {
				if recs[i].kind == "hint" || recs[i].pos == nil {
					continue
				}
				v, err := df2.ReadRecordValue(recs[i].pos)
				rd = append(rd, err == nil && bytes.Equal(v, recs[i].val))
			}
			return
		}
		rdr := df2.NewReader()
		for i := 0; i < nf; i++ {
			if _, _, err := rdr.NextLogRecord(); err != nil {
				seqerr = "filler:" + h.ErrName(err)
				return
			}
		}
		// what the reader hands out is kept until the whole file has been read and only then compared: a caller that
		// reads a sequence of records holds all of them (the index keeps the keys of hint records)
		type got struct {
			key, val []byte
			ok       bool
		}
		gots := make([]got, len(recs))
		for i := range recs {
			if recs[i].kind == "hint" {
				key, pos, err := rdr.NextHintRecord()
				if err != nil {
					seqerr = h.ErrName(err)
					return
				}
				gots[i] = got{key: key, ok: *pos == recs[i].hpos}
				seq = append(seq, map[string]any{"blk": -1, "off": -1, "size": -1, "same": false})
				continue
			}
			lr, pos, err := rdr.NextLogRecord()
			if err != nil {
				seqerr = h.ErrName(err)
				return
			}
			gots[i] = got{key: lr.Key, val: lr.Value, ok: lr.Type == recs[i].typ && lr.BatchID == recs[i].bt}
			seq = append(seq, map[string]any{"blk": int(pos.BlockID), "off": int(pos.Offset), "size": int(pos.Size), "same": false})
		}
		defer func() {
			for i := range seq {
				same := gots[i].ok && bytes.Equal(gots[i].key, recs[i].key)
				if recs[i].kind != "hint" {
					same = same && bytes.Equal(gots[i].val, recs[i].val)
				}
				seq[i]["same"] = same
			}
		}()
		if _, _, err := rdr.NextLogRecord(); err != io.EOF {
			seqerr = "noeof:" + h.ErrName(err)
		}
		for i := range recs {
			if recs[i].kind == "hint" || recs[i].pos == nil {
				continue
			}
			v, err := df2.ReadRecordValue(recs[i].pos)
			rd = append(rd, err == nil && bytes.Equal(v, recs[i].val))
		}
	}()
	out := []map[string]any{}
	for i := range recs {
		bt, btl := int64(recs[i].bt), 0
		if recs[i].bt >= 1<<30 {
			// beyond TLC's integers: log the length of its uvarint encoding instead
			var tmp [binary.MaxVarintLen64]byte
			bt, btl = -1, binary.PutUvarint(tmp[:], recs[i].bt)
		}
		m := map[string]any{"kind": recs[i].kind, "klen": recs[i].klen, "vlen": recs[i].vlen, "bt": bt, "btl": btl,
			"hf": int(recs[i].hpos.Fid), "hb": int(recs[i].hpos.BlockID), "ho": int(recs[i].hpos.Offset), "hs": int(recs[i].hpos.Size),
			"blk": -1, "off": -1, "size": -1}
		if recs[i].pos != nil {
			m["blk"], m["off"], m["size"] = int(recs[i].pos.BlockID)-c.base, int(recs[i].pos.Offset), int(recs[i].pos.Size)
		}
		out = append(out, m)
	}
	ev["recs"], ev["seq"], ev["seqerr"], ev["rd"] = out, seq, seqerr, rd
	// the bytes behind the hole (the whole file if there is none)
	hs := sha1.New()
	if f, err := os.Open(name); err == nil {
		if fi, err := f.Stat(); err == nil && fi.Size() > baseBytes {
			io.Copy(hs, io.NewSectionReader(f, baseBytes, fi.Size()-baseBytes))
		}
		f.Close()
	}
	return ev, hex.EncodeToString(hs.Sum(nil)), true
}

// lengthFor picks a value length for a record starting (before padding) at file offset abs.
func lengthFor(r *rand.Rand, abs int64, klen int, choice int) int {
	o := abs % h.BlockSize
	room := int(h.BlockSize - o - h.ChunkHdr) // payload room of the first chunk (if no padding)
	if room <= 0 {
		room = h.BlockSize - h.ChunkHdr
	}
	over := h.RecLen(klen, 0)
	pick := func(n int) int {
		if n < over {
			return 0
		}
		for v := n - over - 6; v <= n-over+6; v++ {
			if v >= 0 && h.RecLen(klen, v) == n {
				return v
			}
		}
		return n - over
	}
	switch choice % 12 {
	case 0:
		return 0
	case 1:
		return 1 + r.Intn(40)
	case 2: // record ends d bytes before/after the block end
		return pick(room + r.Intn(19) - 9)
	case 3:
		return pick(room) // fills the block exactly
	case 4:
		return pick(room - h.ChunkHdr + r.Intn(3) - 1) // leaves a tail that cannot hold a header
	case 5:
		return pick(room + (h.BlockSize - h.ChunkHdr)) // two chunks, second fills its block
	case 6:
		return pick(room + (h.BlockSize - h.ChunkHdr) + r.Intn(19) - 9)
	case 7:
		return pick(room + 2*(h.BlockSize-h.ChunkHdr) + r.Intn(30) - 15)
	case 8:
		return pick(room + 1)
	case 9:
		return 100 + r.Intn(3000)
	case 10:
		return pick(room - r.Intn(9))
	default:
		return h.BlockSize + r.Intn(3*h.BlockSize)
	}
}

// refusing is a back-end whose Write stores nothing and fails.
type refusing struct{ fio.ReadWriter }

func (refusing) Write([]byte) (int, error) { return 0, errors.New("injected: no space left on device") }

func profFraming(en *Env) {
	r := en.R
	var ends [][2]int
	if en.Thorough() {
		for e := 0; e < h.BlockSize; e++ {
			ends = append(ends, [2]int{r.Intn(3), e})
		}
	} else {
		for e := h.BlockSize - 16; e < h.BlockSize; e++ {
			ends = append(ends, [2]int{0, e}, [2]int{1, e})
		}
		for e := 0; e <= 26; e++ {
			ends = append(ends, [2]int{0, e}, [2]int{2, e})
		}
		for i := 0; i < 260*en.Scale; i++ {
			ends = append(ends, [2]int{r.Intn(3), 27 + r.Intn(h.BlockSize-43)})
		}
	}
	cases, unreachable, xmis := 0, 0, 0
	perEnd := 3
	if en.Thorough() {
		perEnd = 5
	}
	choice := 0
	for _, be := range ends {
		if _, ok := fillerFor(be[0], be[1]); !ok {
			unreachable++
			continue
		}
		for j := 0; j < perEnd; j++ {
			choice++
			c := fcase{b: be[0], e: be[1]}
			abs := int64(be[0])*h.BlockSize + int64(be[1])
			nrec := 1
			if j == perEnd-1 {
				nrec = 2 + r.Intn(3)
				c.flush = r.Intn(2) == 0
			}
			cur := abs
			for k := 0; k < nrec; k++ {
				klen := []int{1, 3, 10, 64, 300}[r.Intn(5)]
				fr := frec{kind: "log", klen: klen, vlen: lengthFor(r, cur, klen, choice+k), typ: byte(r.Intn(3))}
				if c.flush || r.Intn(4) == 0 {
					fr.bt = []uint64{1, 300, 70000, 1 << 40, 1<<63 + 12345}[r.Intn(5)]
				}
				if !c.flush && nrec > 1 && r.Intn(4) == 0 {
					fr = frec{kind: "hint", klen: klen}
				}
				c.recs = append(c.recs, fr)
				cur += int64(h.ChunkHdr + h.RecLen(klen, fr.vlen)) // rough; only steers the next choice
			}
			if choice%25 == 7 {
				// the same case behind a hole of 2^17 - 1 blocks: the appended records lie around the 4 GiB mark
				c.base = 1<<17 - 1 - c.b
				if r.Intn(2) == 0 {
					c.base = 1<<17 + r.Intn(1000)
				}
				hasHint := false
				for _, fr := range c.recs {
					hasHint = hasHint || fr.kind == "hint"
				}
				if hasHint {
					c.base = 0
				}
			}
			seed := r.Int63()
			ev1, h1, ok1 := runCase(en, c, "std", seed)
			if !ok1 {
				continue
			}
			xio := true
			doMmap := en.Thorough() && choice%6 == 0 || !en.Thorough() && choice%3 == 0
			if doMmap {
				ev2, h2, ok2 := runCase(en, c, "mmap", seed)
				if ok2 {
					xio = h1 == h2
					ev2["xio"] = xio
					en.T.Emit(ev2)
					cases++
				}
			}
			if !xio {
				xmis++
			}
			ev1["xio"] = xio
			en.T.Emit(ev1)
			cases++
		}
	}
	en.Summary["cases"] = cases
	en.Summary["end_states"] = len(ends) - unreachable
	en.Summary["unreachable_end_states"] = unreachable
}
