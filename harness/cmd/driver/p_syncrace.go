package main

import (
	"bytes"
	"os"
	"sync"
	"time"

	kv "github.com/XiXi-2024/xixi-kv"
	"verifharness/h"
)

// Profile syncrace (C13 under concurrency): two clients on one database under SyncStrategy Threshold / Always.
// Client A's calls run with a blocking I/O hook: the first fsync of a data file that A's call issues is parked at
// its entry; while it is parked client B issues Puts and Deletes - they complete only if the engine's locks let
// them (otherwise they complete after A has been released: time only decides which interleaving is explored) -
// then A is released. Every intercepted I/O call is logged by the goroutine that made it, before it goes on, with
// the client it belongs to; SyncConcTrace.tla judges the sync obligations at every return.
func init() { profiles["syncrace"] = profSyncRace }

func profSyncRace(en *Env) {
	rounds := 12 * en.Scale
	if en.Thorough() {
		rounds = 150 * en.Scale
	}
	stats := map[string]int{}
	for i := 0; i < rounds; i++ {
		syncRaceRound(en, i, stats)
	}
	en.Summary["rounds"] = rounds
	en.Summary["stats"] = stats
}

func syncRaceRound(en *Env, i int, stats map[string]int) {
	r := en.R
	cfg := h.Cfg{Index: h.IndexTypes[i%3], Shards: 4, IO: h.IOTypes[(i/3)%2], Limit: []int64{1500, 6000, 1 << 20}[i%3], Sync: []string{"threshold", "threshold", "always"}[i%3]}
	if cfg.Sync == "threshold" {
		cfg.BPS = []uint{200, 600, 1500}[r.Intn(3)]
	}
	dir := en.FreshDir()
	defer en.Drop(dir)
	u := h.SimpleKeys(4, 6)
	var mu sync.Mutex // orders the trace: one event at a time
	emit := func(ev h.Ev) {
		mu.Lock()
		en.T.Emit(ev)
		mu.Unlock()
	}
	emit(h.Ev{"ev": "reset", "cfg": cfg.Ev(), "prof": "syncrace"})
	var clientOf sync.Map // goroutine id -> client
	var gate struct {
		sync.Mutex
		armed   bool
		parked  chan struct{}
		release chan struct{}
	}
	h.SetIOHandler(func(ev h.IOEv) {
		if ev.Kind == "point" {
			return
		}
		ref := h.RefOf(ev.Path, dir)
		if ref.D != 0 || ref.X != "data" {
			return
		}
		c := 0
		if v, ok := clientOf.Load(goid()); ok {
			c = v.(int)
		}
		if ev.Phase == 0 {
			if ev.Kind == "sync" && (c == 1 || c == 3) {
				gate.Lock()
				if gate.armed {
					gate.armed = false
					p, rel := gate.parked, gate.release
					gate.Unlock()
					close(p)
					<-rel
					return
				}
				gate.Unlock()
			}
			return
		}
		n := ev.N
		if ev.Kind == "open" {
			n = 0
			if fi, err := os.Stat(ev.Path); err == nil {
				n = fi.Size()
			}
		}
		emit(h.Ev{"ev": "io", "c": c, "kind": ev.Kind, "f": ref.ID, "n": n})
	})
	defer h.SetIOHandler(nil)
	db, err := kv.Open(cfg.Options(dir))
	if err != nil {
		return
	}
	closed := false
	defer func() {
		if !closed {
			guardName(func() error { return db.Close() })
		}
	}()
	call := func(c int, put bool, k int, n int) {
		op := "Delete"
		if put {
			op = "Put"
		}
		emit(h.Ev{"ev": "call", "c": c, "op": op})
		key := u.Key(k)
		// (the call runs on the goroutine of its client: the I/O hook attributes I/O calls by goroutine)
		clientOf.Store(goid(), c)
		name := guardName(func() error {
			if put {
				return db.Put(key, make([]byte, n))
			}
			return db.Delete(key)
		})
		clientOf.Delete(goid())
		emit(h.Ev{"ev": "ret", "c": c, "op": op, "err": name})
	}
	vlen := func() int { return 20 + r.Intn(int(cfg.BPS)/2+60) }
	steps := 10 + r.Intn(10)
	for s := 0; s < steps; s++ {
		// A's call, parked at the fsync it issues (if it issues one)
		gate.Lock()
		gate.armed = true
		gate.parked, gate.release = make(chan struct{}), make(chan struct{})
		parked, release := gate.parked, gate.release
		gate.Unlock()
		aDone := make(chan struct{})
		ka, na, aput := 1+r.Intn(4), vlen(), r.Intn(5) != 0
		if s%3 == 2 {
			// A commits a batch created with Sync (it holds the database lock from NewBatch to the end of Commit, its
			// fsync included): B's rival writes to the same keys must wait. Its I/O is logged under client 3, which has
			// no obligations in the specification; what is judged is the note at the end of the round.
			go func() {
				clientOf.Store(goid(), 3)
				guardName(func() error {
					b := db.NewBatch(kv.BatchOptions{Sync: true})
					if err := b.Put(u.Key(ka), bytes.Repeat([]byte{0xA5}, na)); err != nil {
						return err
					}
					if err := b.Put(u.Key(1+ka%4), bytes.Repeat([]byte{0xA6}, na)); err != nil {
						return err
					}
					return b.Commit()
				})
				clientOf.Delete(goid())
				close(aDone)
			}()
		} else {
			go func() { call(1, aput, ka, na); close(aDone) }()
		}
		select {
		case <-aDone: // no fsync in this call
			gate.Lock()
			gate.armed = false
			gate.Unlock()
			stats["a_without_sync"]++
			continue
		case <-parked:
		}
		stats["a_parked"]++
		// B's calls while A's fsync has not started
		bDone := make(chan struct{})
		nb := 1 + r.Intn(3)
		type bc struct {
			put  bool
			k, n int
		}
		var bcs []bc
		for j := 0; j < nb; j++ {
			bcs = append(bcs, bc{r.Intn(6) != 0, 1 + r.Intn(4), vlen()})
		}
		bMerges := s%3 == 2 && r.Intn(2) == 0
		go func() {
			if bMerges {
				// B also asks for a Merge while A's batch is being committed: it has to wait for the batch like any writer
				// (a merge that scanned the batch's records before they are in the index would judge them dead)
				emit(h.Ev{"ev": "call", "c": 2, "op": "Merge"})
				clientOf.Store(goid(), 2)
				name := guardName(func() error { return db.Merge() })
				clientOf.Delete(goid())
				emit(h.Ev{"ev": "ret", "c": 2, "op": "Merge", "err": name})
			}
			for _, x := range bcs {
				call(2, x.put, x.k, x.n)
			}
			close(bDone)
		}()
		select {
		case <-bDone:
			stats["b_finished_inside_a_sync"]++
		case <-time.After(25 * time.Millisecond):
			stats["b_blocked"]++
		}
		// a batch commit issues several fsyncs (its records, its sealing record): it is parked at each of them in turn,
		// and B gets its chance every time
		for s%3 == 2 {
			gate.Lock()
			gate.armed = true
			gate.parked, gate.release = make(chan struct{}), make(chan struct{})
			parked2, release2 := gate.parked, gate.release
			gate.Unlock()
			close(release)
			release = release2
			again := false
			select {
			case <-aDone:
			case <-parked2:
				again = true
				select {
				case <-bDone:
				case <-time.After(25 * time.Millisecond):
				}
			}
			if !again {
				gate.Lock()
				gate.armed = false
				gate.Unlock()
				break
			}
		}
		close(release)
		<-aDone
		<-bDone
	}
	// quiescent: what the live database serves is what a restart recovers (the order in which racing writes reached
	// the log is the order in which they won)
	live := make([][]byte, 5)
	for k := 1; k <= 4; k++ {
		live[k], _ = db.Get(u.Key(k))
	}
	h.SetIOHandler(nil)
	closed = true
	if guardName(func() error { return db.Close() }) != "ok" {
		return
	}
	db2, err := kv.Open(cfg.Options(dir))
	if err != nil {
		emit(h.Ev{"ev": "note", "check": "liverec", "ok": false, "why": "reopen: " + err.Error()})
		return
	}
	same := true
	for k := 1; k <= 4; k++ {
		rec, _ := db2.Get(u.Key(k))
		if !bytes.Equal(rec, live[k]) {
			same = false
		}
	}
	db2.Close()
	emit(h.Ev{"ev": "note", "check": "liverec", "ok": same})
}
