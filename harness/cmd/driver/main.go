// Command driver runs workload profiles against the real engine (built from
// /repo's working tree with -tags verif) and writes NDJSON traces that the
// TLA+ trace specifications judge. It contains no oracle.
package main

import (
	"flag"
	"fmt"
	"math/rand"
	"os"
	"path/filepath"

	"verifharness/h"
)

type Env struct {
	Seed    int64
	Tier    string
	Out     string // trace file
	Work    string // scratch directory (removed by the caller)
	Scale   int    // amount multiplier
	R       *rand.Rand
	T       *h.Trace
	dirSeq  int
	Summary map[string]any
}

func (en *Env) Thorough() bool { return en.Tier == "thorough" }

// FreshDir returns a new empty database directory.
func (en *Env) FreshDir() string {
	en.dirSeq++
	d := filepath.Join(en.Work, fmt.Sprintf("db%05d", en.dirSeq))
	os.RemoveAll(d)
	os.RemoveAll(h.MergePath(d))
	return d
}

func (en *Env) Drop(dir string) {
	os.RemoveAll(dir)
	os.RemoveAll(h.MergePath(dir))
}

var profiles = map[string]func(*Env){}

func main() {
	if len(os.Args) < 2 {
		fmt.Fprintln(os.Stderr, "usage: driver <profile> [flags]")
		os.Exit(2)
	}
	prof := os.Args[1]
	fs := flag.NewFlagSet(prof, flag.ExitOnError)
	seed := fs.Int64("seed", 1, "seed")
	tier := fs.String("tier", "quick", "quick|thorough")
	out := fs.String("out", "trace.ndjson", "trace file")
	work := fs.String("work", "", "scratch directory")
	scale := fs.Int("scale", 1, "amount multiplier")
	fs.Parse(os.Args[2:])
	fn, ok := profiles[prof]
	if !ok {
		fmt.Fprintln(os.Stderr, "unknown profile", prof)
		os.Exit(2)
	}
	if *work == "" {
		fmt.Fprintln(os.Stderr, "-work is required")
		os.Exit(2)
	}
	os.MkdirAll(*work, 0755)
	t, err := h.NewTrace(*out)
	if err != nil {
		fmt.Fprintln(os.Stderr, err)
		os.Exit(2)
	}
	h.InstallHooks()
	en := &Env{Seed: *seed, Tier: *tier, Out: *out, Work: *work, Scale: *scale,
		R: rand.New(rand.NewSource(*seed)), T: t, Summary: map[string]any{}}
	fn(en)
	t.Close()
	en.Summary["events"] = t.N
	h.WriteJSON(*out+".summary.json", en.Summary)
}
