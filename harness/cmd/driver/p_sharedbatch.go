package main

import (
	"strings"
	"sync"
	"time"

	kv "github.com/XiXi-2024/xixi-kv"
	"github.com/XiXi-2024/xixi-kv/fio"
	"verifharness/h"
)

// Profile sharedbatch (C05, "a committed batch rejects further use", with several goroutines on one batch): one
// goroutine's Batch.Put triggers an early flush and is parked inside its write (it holds the batch's mutex); a second
// goroutine calls Commit and a third one a late Put / Delete / Get - they queue behind the first in that order (as far
// as the runtime keeps it; either order is a legal schedule); then the first is released. Logged: the outcome of the
// late call and whether its effect is in the database afterwards. A late call that was accepted must have taken
// effect; one that came after the Commit must have been rejected.
func init() { profiles["sharedbatch"] = profSharedBatch }

func profSharedBatch(en *Env) {
	rounds := 12 * en.Scale
	if en.Thorough() {
		rounds = 120 * en.Scale
	}
	stats := map[string]int{}
	for i := 0; i < rounds; i++ {
		sharedBatchRound(en, i, stats)
	}
	en.Summary["rounds"] = rounds
	en.Summary["stats"] = stats
}

func sharedBatchRound(en *Env, i int, stats map[string]int) {
	cfg := h.Cfg{Index: h.IndexTypes[i%3], Shards: 4, IO: h.IOTypes[(i/3)%2], Limit: 4096, Sync: "no"}
	dir := en.FreshDir()
	defer en.Drop(dir)
	db, err := kv.Open(cfg.Options(dir))
	if err != nil {
		return
	}
	defer func() { guardName(func() error { return db.Close() }) }()
	en.T.Emit(h.Ev{"ev": "reset", "key": 0, "label": "sharedbatch:" + cfg.String()})
	db.Put([]byte("victim"), []byte("old"))
	b := db.NewBatch(kv.BatchOptions{})
	b.Put([]byte("first"), make([]byte, 1500))
	b.Put([]byte("second"), make([]byte, 1500))
	parked, release := make(chan struct{}), make(chan struct{})
	var once sync.Once
	fio.VerifIO = func(phase int, kind, name string, n int64) {
		if phase == 0 && kind == "write" && strings.HasSuffix(name, ".data") {
			once.Do(func() { close(parked); <-release })
		}
	}
	var wg sync.WaitGroup
	var big, commit, late string
	wg.Add(1)
	go func() { // overflows the file-size limit: early flush, parked at its write
		defer wg.Done()
		big = guardName(func() error { return b.Put([]byte("third"), make([]byte, 1500)) })
	}()
	select {
	case <-parked:
		stats["parked"]++
	case <-time.After(2 * time.Second):
		fio.VerifIO = nil
		wg.Wait()
		stats["no_early_flush"]++
		guardName(func() error { return b.Commit() })
		return
	}
	wg.Add(1)
	go func() { defer wg.Done(); commit = guardName(func() error { return b.Commit() }) }()
	time.Sleep(3 * time.Millisecond)
	kind := []string{"Put", "Delete", "Get"}[i%3]
	wg.Add(1)
	go func() {
		defer wg.Done()
		late = guardName(func() error {
			switch kind {
			case "Put":
				return b.Put([]byte("late"), []byte("late-value"))
			case "Delete":
				return b.Delete([]byte("victim"))
			default:
				_, err := b.Get([]byte("victim"))
				return err
			}
		})
	}()
	time.Sleep(3 * time.Millisecond)
	close(release)
	wg.Wait()
	fio.VerifIO = nil
	// the effect of the late call as the database shows it now
	effect := false
	switch kind {
	case "Put":
		v, err := db.Get([]byte("late"))
		effect = err == nil && string(v) == "late-value"
	case "Delete":
		_, err := db.Get([]byte("victim"))
		effect = h.ErrName(err) == "notfound"
	}
	en.T.Emit(h.Ev{"ev": "sbatch", "kind": kind, "big": big, "commit": commit, "late": late, "effect": effect})
}
