package main

import (
	"verifharness/h"
)

// Profile batch (C05): base histories that leave values in the active file
// and in rotated files, then seeded batch operation sequences with repeated
// operations on one key and batches that overflow DataFileSize; Commit; dump;
// then every batch method once more (a committed batch rejects further use).
func init() { profiles["batch"] = profBatch }

func profBatch(en *Env) {
	traces := 30 * en.Scale
	if en.Thorough() {
		traces = 600 * en.Scale
	}
	limits := []int64{200, 300, 600, 3000, 40000, 1 << 20}
	for t := 0; t < traces; t++ {
		cfg := h.CoverCfg(en.R, t, limits)
		batchTrace(en, cfg, t%2 == 1)
	}
	en.Summary["traces"] = traces
}

// hostile: the caller passes every key and value in one reused buffer each and overwrites them after every return
// (C15 allows that; what the batch staged must not depend on it)
func batchTrace(en *Env, cfg h.Cfg, hostile bool) {
	r := en.R
	nkeys := 2 + r.Intn(4)
	dir := en.FreshDir()
	defer en.Drop(dir)
	u := h.PickKeys(r, nkeys, 5+r.Intn(8))
	vs := h.NewValues()
	e := h.NewEng(dir, en.Work+"/scratch", cfg, u, vs, en.T)
	e.Hostile = hostile
	en.T.Emit(h.Ev{"ev": "reset", "n": nkeys, "seed": en.Seed, "prof": "batch"})
	if e.Open(cfg) != "ok" {
		return
	}
	klen := len(u.Key(1))
	val := func() int {
		var n int
		switch c := r.Intn(10); {
		case c < 1:
			n = 0
		case c < 6:
			n = 1 + r.Intn(60)
		case c < 8:
			n = int(cfg.Limit/3) + r.Intn(50)
		case c < 9:
			n = int(cfg.Limit) + r.Intn(100) // alone exceeds the limit (if the limit is small)
			if n > 150000 {
				n = 100 + r.Intn(2000)
			}
		default:
			n = h.PickLen(r, 0, klen, cfg.Limit)
		}
		id, _ := vs.New(n)
		return id
	}
	// base history: some keys end up in rotated files, some in the active file, some absent
	nb := r.Intn(8)
	for i := 0; i < nb && !e.Dead; i++ {
		k := 1 + r.Intn(nkeys)
		if r.Intn(5) == 0 {
			e.Delete(k)
		} else {
			e.Put(k, val())
		}
	}
	e.Dump()
	rounds := 1 + r.Intn(3)
	for rd := 0; rd < rounds && !e.Dead; rd++ {
		e.NewBatch(r.Intn(3) == 0)
		nops := r.Intn(9)
		hot := 1 + r.Intn(nkeys)
		for j := 0; j < nops && !e.Dead; j++ {
			k := 1 + r.Intn(nkeys)
			if r.Intn(2) == 0 {
				k = hot // repeated operations on one key: put-delete-put, delete-put, put-put-delete ...
			}
			switch c := r.Intn(10); {
			case c < 4:
				e.BPut(k, val())
			case c < 7:
				e.BDelete(k)
			case c < 9:
				e.BGet(k)
			default:
				e.BGet(1 + r.Intn(nkeys))
			}
		}
		// read everything back through the batch before committing
		if r.Intn(2) == 0 {
			for k := 1; k <= nkeys && !e.Dead; k++ {
				e.BGet(k)
			}
		}
		if e.Dead {
			break
		}
		e.Commit()
		e.Dump()
		if e.Dead {
			break
		}
		// a committed batch rejects further use (and nothing else happens)
		switch r.Intn(5) {
		case 0:
			e.BPut(hot, val())
		case 1:
			e.BDelete(hot)
		case 2:
			e.BGet(hot)
		case 3:
			e.Commit()
		default:
			e.Commit()
			if !e.Dead {
				e.BPut(hot, val())
			}
		}
		if e.Dead {
			break
		}
		e.Dump()
		// plain operations in between keep working (the database lock was released exactly once)
		if r.Intn(2) == 0 {
			e.Put(1+r.Intn(nkeys), val())
			e.Get(hot)
			e.Dump()
		}
	}
	if !e.Dead && r.Intn(3) == 0 {
		if e.Close() == "ok" && e.Open(cfg) == "ok" {
			e.Dump()
		}
	}
	if !e.Dead && e.DB != nil {
		h.WithoutCapture(func() { e.DB.Close() })
	}
}
