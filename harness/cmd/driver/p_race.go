package main

import (
	"math/rand"
	"os"
	"path/filepath"
	"runtime"
	"strings"
	"sync"
	"sync/atomic"
	"time"

	kv "github.com/XiXi-2024/xixi-kv"
	"verifharness/h"
)

// Profile race (C09): mixes of all public calls from up to 16 goroutines on
// one database (each index type, small file sizes that force rotations),
// executed by the engine built with -tags verif -race. Logged: every
// completed call with its error, recovered panics, a watchdog event if the
// run does not finish, and the number of reports of Go's race detector
// (an execution monitor for the "no unsynchronised conflicting memory
// accesses" clause, which a specification cannot observe).
func init() { profiles["race"] = profRace }

type copLog struct {
	mu  sync.Mutex
	evs []h.Ev
}

func (l *copLog) add(op string, err string) {
	l.mu.Lock()
	l.evs = append(l.evs, h.Ev{"ev": "cop", "op": op, "err": err})
	l.mu.Unlock()
}

func guardName(fn func() error) (name string) {
	defer func() {
		if r := recover(); r != nil {
			buf := make([]byte, 1<<13)
			n := runtime.Stack(buf, false)
			os.Stderr.Write(buf[:n])
			name = "panic"
		}
	}()
	return h.ErrName(fn())
}

// The engine reads kv.VerifPoint from its own goroutines (the background merge among them) without any
// synchronisation with the driver, so the variable is written exactly once per process; what the hook does is
// changed through an atomic.
var raceHook atomic.Value // of func(string, uint32)

func setRaceHook(f func(string, uint32)) {
	if f == nil {
		f = func(string, uint32) {}
	}
	raceHook.Store(f)
}

func profRace(en *Env) {
	setRaceHook(nil)
	kv.VerifPoint = func(name string, arg uint32) { raceHook.Load().(func(string, uint32))(name, arg) }
	runs := 6 * en.Scale
	if en.Thorough() {
		runs = 60 * en.Scale
	}
	stats := map[string]int{}
	for i := 0; i < runs; i++ {
		raceRun(en, i, stats)
	}
	// reports of the race detector (GORACE log_path=<VERIF_RACE_LOG>)
	races := 0
	if p := os.Getenv("VERIF_RACE_LOG"); p != "" {
		files, _ := filepath.Glob(p + "*")
		for _, f := range files {
			b, _ := os.ReadFile(f)
			races += strings.Count(string(b), "WARNING: DATA RACE")
			if len(b) > 0 {
				os.Stderr.Write(b[:min(len(b), 6000)])
			}
		}
	}
	en.T.Emit(h.Ev{"ev": "note", "check": "norace", "ok": races == 0, "reports": races})
	en.Summary["runs"] = runs
	en.Summary["race_reports"] = races
	en.Summary["stats"] = stats
}

func raceRun(en *Env, i int, stats map[string]int) {
	r := en.R
	cfg := h.Cfg{Index: h.IndexTypes[i%3], Shards: []int{1, 2, 16}[r.Intn(3)], IO: h.IOTypes[(i/3)%2], Limit: []int64{400, 3000, 1 << 20}[i%3], Sync: h.SyncKinds[r.Intn(3)], BPS: 64}
	nkeys := 8
	if i%3 == 2 && i%6 != 5 {
		// (the runs that start on a merged and restarted database: several rewritten files, memory-mapped every other time)
		cfg.Limit = 3000
		cfg.IO = h.IOTypes[1-(i/6)%2]
	}
	dir := en.FreshDir()
	defer en.Drop(dir)
	u := h.SimpleKeys(nkeys, 6)
	opts := cfg.Options(dir)
	// every sixth run: the engine's own background-merge goroutine (Options.EnableBackgroundMerge, one attempt
	// per second while bytes are being written) runs next to the callers
	bg := i%6 == 5
	opts.EnableBackgroundMerge = bg
	t0 := time.Now()
	db, err := kv.Open(opts)
	if err != nil {
		return
	}
	if i%3 == 2 && !bg {
		// every third run starts on a database that was written, merged and restarted: the restart adopts the merge and
		// indexes the rewritten files through the hint file, so the callers below are the first to touch those files
		func() {
			pr := rand.New(rand.NewSource(int64(i)*31 + 5))
			for j := 0; j < 60; j++ {
				b := make([]byte, 500+pr.Intn(700))
				pr.Read(b)
				if db.Put(u.Key(1+pr.Intn(nkeys)), b) != nil {
					return
				}
			}
			if db.Merge() != nil || db.Close() != nil {
				stats["prelude_failed"]++
				return
			}
			stats["preludes"]++
		}()
		db, err = kv.Open(opts)
		if err != nil {
			return
		}
	}
	setRaceHook(func(name string, arg uint32) {
		if arg%3 == 0 {
			runtime.Gosched()
		}
	})
	lg := &copLog{}
	nworkers := []int{4, 8, 16}[i%3]
	ops := 40
	var wg sync.WaitGroup
	mkval := func(cr *rand.Rand) []byte {
		b := make([]byte, 1+cr.Intn(300))
		cr.Read(b)
		return b
	}
	prelude := i%3 == 2 && !bg
	startGun := make(chan struct{})
	defer func() {
		select {
		case <-startGun:
		default:
			close(startGun)
		}
	}()
	for w := 0; w < nworkers; w++ {
		wg.Add(1)
		seed := r.Int63()
		go func(w int) {
			defer wg.Done()
			cr := rand.New(rand.NewSource(seed))
			if prelude {
				// all callers read every key first: the first accesses to the adopted files happen at the same time
				<-startGun
				for k := 1; k <= nkeys; k++ {
					key := u.Key(1 + (k+w)%nkeys)
					lg.add("Get", guardName(func() error { _, err := db.Get(key); return err }))
				}
			}
			for j := 0; j < ops; j++ {
				key := u.Key(1 + cr.Intn(nkeys))
				switch x := cr.Intn(100); {
				case x < 25:
					lg.add("Put", guardName(func() error { return db.Put(key, mkval(cr)) }))
				case x < 37:
					lg.add("Delete", guardName(func() error { return db.Delete(key) }))
				case x < 52:
					lg.add("Get", guardName(func() error { _, err := db.Get(key); return err }))
				case x < 60:
					lg.add("ListKeys", guardName(func() error { db.ListKeys(); return nil }))
				case x < 66:
					lg.add("Fold", guardName(func() error { return db.Fold(func(k, v []byte) bool { return true }) }))
				case x < 76:
					lg.add("Iterate", guardName(func() error {
						it := db.NewIterator(kv.IteratorOptions{Reverse: cr.Intn(2) == 0, Prefix: []byte("k0")})
						defer it.Close()
						n := 0
						for it.Rewind(); it.Valid() && n < 5; it.Next() {
							if _, err := it.Value(); err != nil && h.ErrName(err) != "notfound" {
								return err
							}
							n++
						}
						it.Seek(key)
						return nil
					}))
				case x < 82:
					lg.add("Stat", guardName(func() error { db.Stat(); return nil }))
				case x < 87:
					lg.add("Sync", guardName(func() error { return db.Sync() }))
				case x < 96:
					// a batch is committed by its owner (it holds the database lock in between)
					lg.add("Batch", guardName(func() error {
						b := db.NewBatch(kv.BatchOptions{Sync: cr.Intn(4) == 0})
						if err := b.Put(key, mkval(cr)); err != nil {
							b.Commit()
							return err
						}
						b.Get(u.Key(1 + cr.Intn(nkeys)))
						b.Delete(u.Key(1 + cr.Intn(nkeys)))
						return b.Commit()
					}))
				default:
					lg.add("Merge", guardName(func() error { return db.Merge() }))
				}
			}
		}(w)
	}
	close(startGun)
	if bg {
		// keep writing until the background goroutine has had two ticks
		wg.Add(1)
		go func() {
			defer wg.Done()
			cr := rand.New(rand.NewSource(int64(i)))
			for time.Since(t0) < 2200*time.Millisecond {
				key := u.Key(1 + cr.Intn(nkeys))
				lg.add("Put", guardName(func() error { return db.Put(key, mkval(cr)) }))
				lg.add("Get", guardName(func() error { _, err := db.Get(key); return err }))
				time.Sleep(2 * time.Millisecond)
			}
		}()
		stats["bgmerge_runs"]++
	}
	if i%2 == 1 {
		// a stampede: several Merge calls and writers queue behind an open batch (it holds the database lock) and
		// are let go together when it commits - at most one Merge may run, the others answer "in progress"
		wg.Add(1)
		go func() {
			defer wg.Done()
			cr := rand.New(rand.NewSource(int64(i) * 7919))
			for round := 0; round < 3; round++ {
				b := db.NewBatch(kv.BatchOptions{})
				var w2 sync.WaitGroup
				for m := 0; m < 3; m++ {
					w2.Add(1)
					go func() {
						defer w2.Done()
						lg.add("Merge", guardName(func() error { return db.Merge() }))
					}()
				}
				for m := 0; m < 2; m++ {
					w2.Add(1)
					key := u.Key(1 + cr.Intn(nkeys))
					val := mkval(cr)
					go func() {
						defer w2.Done()
						lg.add("Put", guardName(func() error { return db.Put(key, val) }))
					}()
				}
				time.Sleep(2 * time.Millisecond) // (they are all waiting for the lock now - or will be; either is a legal schedule)
				lg.add("Batch", guardName(func() error {
					if err := b.Put(u.Key(1+cr.Intn(nkeys)), mkval(cr)); err != nil {
						b.Commit()
						return err
					}
					return b.Commit()
				}))
				w2.Wait()
			}
		}()
		stats["stampedes"]++
	}
	done := make(chan struct{})
	go func() { wg.Wait(); close(done) }()
	stuck := false
	select {
	case <-done:
	case <-h.After(120 * time.Second):
		stuck = true
		buf := make([]byte, 1<<20)
		n := runtime.Stack(buf, true)
		os.Stderr.Write(buf[:n])
	}
	setRaceHook(nil)
	en.T.Emit(h.Ev{"ev": "reset", "key": 0, "label": "race:" + cfg.String()})
	lg.mu.Lock()
	for _, ev := range lg.evs {
		en.T.Emit(ev)
		stats[ev["op"].(string)]++
	}
	lg.mu.Unlock()
	en.T.Emit(h.Ev{"ev": "note", "check": "nostuck", "ok": !stuck})
	if stuck {
		h.ExitIfStuck("stuck", en.T)
	}
	if bg {
		// the engine's own background Merge is parked right after it has let go of the database lock; Close, called
		// then, must return (the merge ends with an error once its files are closed - that is not judged)
		parked, rel := make(chan struct{}), make(chan struct{})
		var once sync.Once
		setRaceHook(func(name string, arg uint32) {
			if name == "merge.started" {
				once.Do(func() { close(parked); <-rel })
			}
		})
		for k := 1; k <= nkeys; k++ {
			db.Put(u.Key(k), []byte("bgclose"))
		}
		isParked := false
		select {
		case <-parked:
			isParked = true
		case <-h.After(2500 * time.Millisecond):
		}
		done := make(chan string, 1)
		go func() { done <- guardName(func() error { return db.Close() }) }()
		select {
		case cl := <-done:
			en.T.Emit(h.Ev{"ev": "cop", "op": "Close", "err": cl})
			en.T.Emit(h.Ev{"ev": "note", "check": "bgclose", "ok": true, "parked": isParked})
		case <-h.After(20 * time.Second):
			en.T.Emit(h.Ev{"ev": "note", "check": "bgclose", "ok": false, "parked": isParked})
			close(rel)
			h.ExitIfStuck("stuck", en.T)
		}
		close(rel)
		time.Sleep(50 * time.Millisecond)
		setRaceHook(nil)
		stats["bgclose_parked"] += map[bool]int{true: 1, false: 0}[isParked]
		return
	}
	cl := guardName(func() error { return db.Close() })
	en.T.Emit(h.Ev{"ev": "cop", "op": "Close", "err": cl})
	// the restart adopts whatever merge was completed: Open and every read must succeed
	var db2 *kv.DB
	on := guardName(func() error {
		var err error
		db2, err = kv.Open(opts2(opts))
		return err
	})
	en.T.Emit(h.Ev{"ev": "cop", "op": "Open", "err": on})
	if on == "ok" {
		for k := 1; k <= nkeys; k++ {
			key := u.Key(k)
			en.T.Emit(h.Ev{"ev": "cop", "op": "Get", "err": guardName(func() error { _, err := db2.Get(key); return err })})
		}
		en.T.Emit(h.Ev{"ev": "cop", "op": "Fold", "err": guardName(func() error { return db2.Fold(func(k, v []byte) bool { return true }) })})
		guardName(func() error { return db2.Close() })
	}
}

func opts2(o kv.Options) kv.Options {
	o.EnableBackgroundMerge = false
	return o
}
