package main

import (
	"verifharness/h"
)

// Profile hostile (C15): the caller reuses one key buffer and one value
// buffer for every call and scribbles over them after each return; slices
// returned by Get are kept and re-compared after every later call. The
// model comparison (C01's checks) runs while all inputs are being poisoned.
func init() { profiles["hostile"] = profHostile }

func profHostile(en *Env) {
	traces := 12 * en.Scale
	if en.Thorough() {
		traces = 200 * en.Scale
	}
	canaries := 0
	for t := 0; t < traces; t++ {
		cfg := h.CoverCfg(en.R, t, []int64{300, 3000, 70000, 1 << 20})
		canaries += hostileTrace(en, cfg)
	}
	en.Summary["traces"] = traces
	en.Summary["canary_evaluations"] = canaries
}

func hostileTrace(en *Env, cfg h.Cfg) int {
	r := en.R
	nkeys := 3 + r.Intn(5)
	dir := en.FreshDir()
	defer en.Drop(dir)
	u := h.PickKeys(r, nkeys, 5+r.Intn(10))
	vs := h.NewValues()
	e := h.NewEng(dir, en.Work+"/scratch", cfg, u, vs, en.T)
	e.Hostile = true
	en.T.Emit(h.Ev{"ev": "reset", "n": nkeys, "seed": en.Seed, "prof": "hostile"})
	if e.Open(cfg) != "ok" {
		return 0
	}
	val := func() int {
		id, _ := vs.New(h.PickLen(r, 0, 8, cfg.Limit) % 200000)
		return id
	}
	ops := 40
	for i := 0; i < ops && !e.Dead; i++ {
		k := 1 + r.Intn(nkeys)
		switch c := r.Intn(100); {
		case c < 35:
			e.Put(k, val())
		case c < 45:
			e.Delete(k)
		case c < 60:
			// the same key read several times in a row (each returned slice is the caller's own)
			for j := 1 + r.Intn(3); j > 0 && !e.Dead; j-- {
				e.Get(k)
			}
		case c < 85:
			// repeated Batch.Put on one key, then arbitrary later Puts
			e.NewBatch(false)
			n := 1 + r.Intn(5)
			hot := 1 + r.Intn(nkeys)
			for j := 0; j < n && !e.Dead; j++ {
				switch b := r.Intn(10); {
				case b < 6:
					e.BPut(hot, val())
				case b < 7:
					e.BPut(1+r.Intn(nkeys), val())
				case b < 9:
					e.BDelete(hot)
				default:
					e.BGet(hot)
				}
			}
			if !e.Dead {
				e.Commit()
			}
		case c < 92:
			e.Dump()
			if e.Close() != "ok" || e.Open(cfg) != "ok" {
				return e.Canaries
			}
		default:
			e.Merge()
		}
		e.Dump()
	}
	en.T.Emit(h.Ev{"ev": "note", "check": "caller_intact", "ok": true, "evaluations": e.Canaries})
	if !e.Dead && e.DB != nil {
		h.WithoutCapture(func() { e.DB.Close() })
	}
	return e.Canaries
}
