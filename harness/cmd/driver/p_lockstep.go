package main

import (
	"crypto/sha1"
	"encoding/hex"
	"os"
	"sort"

	kv "github.com/XiXi-2024/xixi-kv"
	"github.com/XiXi-2024/xixi-kv/datafile"
	"verifharness/h"
)

// Profile lockstep (C14): one seeded script (value lengths fixed in advance,
// independent of the file layout) is executed under K configurations. Each
// run is a trace of its own, judged against the specification with every
// result enforced; in addition the digests of the K transcripts (every value
// and error returned, every iteration order) must be identical, and for
// batch-free scripts run with equal DataFileSize the data files must be
// byte-identical after Close.
func init() { profiles["lockstep"] = profLockstep }

type scriptStep struct {
	op   string
	k, v int
	a    int
}

func genScript(en *Env, nkeys int, vs *h.Values, n int, batches bool) []scriptStep {
	r := en.R
	val := func() int {
		var ln int
		switch c := r.Intn(10); {
		case c < 1:
			ln = 0
		case c < 6:
			ln = 1 + r.Intn(200)
		case c < 8:
			ln = 200 + r.Intn(3000)
		case c < 9:
			ln = h.BlockSize - 60 + r.Intn(120)
		default:
			ln = h.BlockSize + r.Intn(2*h.BlockSize)
		}
		id, _ := vs.New(ln)
		return id
	}
	var sc []scriptStep
	for i := 0; i < n; i++ {
		k := 1 + r.Intn(nkeys)
		switch c := r.Intn(100); {
		case c < 40:
			sc = append(sc, scriptStep{"Put", k, val(), 0})
		case c < 55:
			sc = append(sc, scriptStep{"Delete", k, 0, 0})
		case c < 65:
			sc = append(sc, scriptStep{"Get", k, 0, 0})
		case c < 78 && batches:
			sc = append(sc, scriptStep{"NewBatch", 0, 0, r.Intn(2)})
			for j := r.Intn(5); j > 0; j-- {
				bk := 1 + r.Intn(nkeys)
				switch b := r.Intn(10); {
				case b < 5:
					sc = append(sc, scriptStep{"BPut", bk, val(), 0})
				case b < 8:
					sc = append(sc, scriptStep{"BDelete", bk, 0, 0})
				default:
					sc = append(sc, scriptStep{"BGet", bk, 0, 0})
				}
			}
			sc = append(sc, scriptStep{"Commit", 0, 0, 0})
		case c < 82:
			sc = append(sc, scriptStep{"Sync", 0, 0, 0})
		case c < 87:
			sc = append(sc, scriptStep{"Merge", 0, 0, 0})
		case c < 94:
			sc = append(sc, scriptStep{"Restart", 0, 0, 0})
		case c < 96:
			sc = append(sc, scriptStep{"Iterate", 0, 0, r.Intn(1024)})
		case c < 99:
			// an iterator that stays open across an overwrite and a delete of keys it has not yielded yet
			sc = append(sc, scriptStep{"IterMut", k, val(), r.Intn(2)})
		default:
			sc = append(sc, scriptStep{"Put", k, val(), 0})
		}
	}
	return sc
}

// iterate logs complete iterations (forward/reverse, with/without a prefix) into the transcript.
func iterate(e *h.Eng, a int) {
	h.WithoutCapture(func() {
		opts := kv.IteratorOptions{Reverse: a&1 == 1}
		if a&2 == 2 {
			opts.Prefix = e.U.Key(1)[:3]
		}
		name := h.Guard(h.CallTimeout, func() error {
			it := e.DB.NewIterator(opts)
			defer it.Close()
			seq := []int{}
			take := func() error {
				v, err := it.Value()
				if err != nil {
					return err
				}
				seq = append(seq, e.U.Rank(it.Key()), e.V.ID(v))
				return nil
			}
			it.Rewind()
			if a&4 == 4 {
				// a few steps, then Rewind: the scan that follows starts over from the first key
				for n := 0; it.Valid() && n < 3; n++ {
					if err := take(); err != nil {
						return err
					}
					it.Next()
				}
				it.Rewind()
				seq = append(seq, -7)
			}
			if a&8 == 8 && it.Valid() {
				// Seek forward to a key of the universe (a target at or ahead of the cursor), then go on
				for n := 0; it.Valid() && n < 2; n++ {
					if err := take(); err != nil {
						return err
					}
					it.Next()
				}
				if it.Valid() {
					tgt := e.U.Key(1 + ((a>>4)&7)%e.U.N())
					if opts.Reverse == (string(tgt) <= string(it.Key())) {
						it.Seek(tgt)
						seq = append(seq, -8)
					}
				}
			}
			if a&128 == 128 {
				// ... two steps behind the Seek, then Rewind: the scan starts over from the first key
				for n := 0; it.Valid() && n < 2; n++ {
					if err := take(); err != nil {
						return err
					}
					it.Next()
				}
				it.Rewind()
				seq = append(seq, -9)
			}
			if a&256 == 256 {
				// a Seek to any key of the universe, wherever the cursor is (the target may lie behind it): C10 does not say
				// what that does, but whatever it does must not depend on the configuration (C14)
				for n := 0; it.Valid() && n < 3; n++ {
					if err := take(); err != nil {
						return err
					}
					it.Next()
				}
				it.Seek(e.U.Key(1 + ((a>>4)&7)%e.U.N()))
				seq = append(seq, -10)
			}
			for ; it.Valid(); it.Next() {
				if err := take(); err != nil {
					return err
				}
			}
			if a&512 == 512 {
				// ... and a Seek on the exhausted iterator
				it.Seek(e.U.Key(1 + ((a>>5)&7)%e.U.N()))
				seq = append(seq, -11)
				for ; it.Valid(); it.Next() {
					if err := take(); err != nil {
						return err
					}
				}
			}
			e.TxAdd("I %d %v|", a, seq)
			return nil
		})
		e.TxAdd("I %s|", name)
	})
}

// iterMut: an iterator is opened, half of it is consumed, then key k is overwritten and its neighbour deleted
// (ordinary recorded calls), then the rest is consumed; everything the iterator yields goes into the transcript,
// which must not depend on the configuration.
func iterMut(e *h.Eng, st scriptStep, nkeys int) {
	var it *kv.Iterator
	seq := []int{}
	take := func(max int) string {
		var name string
		h.WithoutCapture(func() {
			name = h.Guard(h.CallTimeout, func() error {
				for n := 0; it.Valid() && n < max; n++ {
					v, err := it.Value()
					if err != nil {
						return err
					}
					seq = append(seq, e.U.Rank(it.Key()), e.V.ID(v))
					it.Next()
				}
				return nil
			})
		})
		return name
	}
	h.WithoutCapture(func() {
		h.Guard(h.CallTimeout, func() error {
			it = e.DB.NewIterator(kv.IteratorOptions{Reverse: st.a&1 == 1})
			it.Rewind()
			return nil
		})
	})
	if it == nil {
		e.TxAdd("IM none|")
		return
	}
	n1 := take(nkeys / 2)
	e.Do(h.Step{Op: "Put", K: st.k, V: st.v})
	e.Do(h.Step{Op: "Delete", K: st.k%nkeys + 1})
	n2 := take(1 << 20)
	h.WithoutCapture(func() { h.Guard(h.CallTimeout, func() error { it.Close(); return nil }) })
	e.TxAdd("IM %d %s %s %v|", st.a, n1, n2, seq)
}

func dirHash(dir string) string {
	hs := sha1.New()
	ids := h.DataFileIDs(dir)
	sort.Ints(ids)
	for _, id := range ids {
		b, _ := os.ReadFile(datafile.GetFileName(dir, uint32(id), datafile.DataFileSuffix))
		hs.Write([]byte{byte(id)})
		hs.Write(b)
	}
	return hex.EncodeToString(hs.Sum(nil))
}

func profLockstep(en *Env) {
	scripts := 3 * en.Scale
	k := 8
	steps := 35
	if en.Thorough() {
		scripts = 12 * en.Scale
		k = 36
		steps = 50
	}
	limits := []int64{400, 5000, 70000, 1 << 20}
	for s := 0; s < scripts; s++ {
		nkeys := 3 + en.R.Intn(8)
		vs := h.NewValues()
		batches := s%3 != 2 // every third script is batch-free (byte comparison)
		sc := genScript(en, nkeys, vs, steps, batches)
		// (the byte comparison of the batch-free scripts needs a layout that is a function of the operation sequence:
		// since fix F34 - Merge rewrites the files in ascending id order, no longer in the iteration order of a Go map -
		// merged layouts are, and the Merge steps stay in these scripts)
		u := h.PickKeys(en.R, nkeys, 6+en.R.Intn(6))
		if s%3 == 0 {
			// very long keys, all live, merged and restarted twice: the hint path must not depend on the index type
			u = mergeKeys(en, nkeys, true)
			for k := 1; k <= nkeys; k++ {
				id, _ := vs.New(10 + en.R.Intn(50))
				sc = append(sc, scriptStep{"Put", k, id, 0})
			}
			sc = append(sc, scriptStep{"Merge", 0, 0, 0}, scriptStep{"Restart", 0, 0, 0}, scriptStep{"Iterate", 0, 0, 0}, scriptStep{"Restart", 0, 0, 0})
		}
		// every script ends with all keys live and a set of iteration patterns (plain, Rewind after a few steps,
		// forward Seek, both directions): iteration order must not depend on index type or shard count
		for k := 1; k <= nkeys; k++ {
			id, _ := vs.New(5 + en.R.Intn(40))
			sc = append(sc, scriptStep{"Put", k, id, 0})
		}
		// a batch that is larger than the smallest file-size limits (flushed in pieces over several files there, in one
		// piece elsewhere), then a restart: the recovered mapping must not depend on the limit
		if batches { // (batch ids are time-based: the scripts whose file bytes are compared stay batch-free)
			sc = append(sc, scriptStep{"NewBatch", 0, 0, 0})
			for k := 1; k <= nkeys; k++ {
				id, _ := vs.New(150 + en.R.Intn(200))
				sc = append(sc, scriptStep{"BPut", k, id, 0})
				if en.R.Intn(3) == 0 {
					sc = append(sc, scriptStep{"BDelete", 1 + en.R.Intn(nkeys), 0, 0})
				}
			}
			sc = append(sc, scriptStep{"Commit", 0, 0, 0}, scriptStep{"Restart", 0, 0, 0}, scriptStep{"Iterate", 0, 0, 0})
		}
		for a := 0; a < 2; a++ { // an iterator kept open across an overwrite and a delete, both directions
			id, _ := vs.New(5 + en.R.Intn(40))
			sc = append(sc, scriptStep{"IterMut", 1 + en.R.Intn(nkeys), id, a})
			for k := 1; k <= nkeys; k++ {
				id, _ := vs.New(5 + en.R.Intn(40))
				sc = append(sc, scriptStep{"Put", k, id, 0})
			}
		}
		for _, a := range []int{0, 1, 4, 5, 8 + 16*en.R.Intn(8), 9 + 16*en.R.Intn(8), 12 + 16*en.R.Intn(8), 13 + 16*en.R.Intn(8),
			136 + 16*en.R.Intn(8), 137 + 16*en.R.Intn(8), 136 + 16*en.R.Intn(8), 137 + 16*en.R.Intn(8),
			256 + 16*en.R.Intn(8), 257 + 16*en.R.Intn(8), 264 + 16*en.R.Intn(8), 265 + 16*en.R.Intn(8), 768 + 16*en.R.Intn(16), 769 + 16*en.R.Intn(16)} {
			sc = append(sc, scriptStep{"Iterate", 0, 0, a})
		}
		var cfgs []h.Cfg
		if en.Thorough() {
			for _, ix := range h.IndexTypes {
				for _, sh := range h.ShardNums {
					for _, io := range h.IOTypes {
						c := h.RandCfg(en.R, limits)
						c.Index, c.Shards, c.IO = ix, sh, io
						cfgs = append(cfgs, c)
					}
				}
			}
		} else {
			for i := 0; i < k; i++ {
				cfgs = append(cfgs, h.CoverCfg(en.R, i, limits))
			}
		}
		if !batches {
			// equal limits in pairs so that file bytes can be compared
			for i := range cfgs {
				cfgs[i].Limit = limits[(i/2)%len(limits)]
			}
		}
		digests := map[string]int{}
		byLimit := map[int64]map[string]int{}
		for _, cfg := range cfgs {
			dir := en.FreshDir()
			e := h.NewEng(dir, en.Work+"/scratch", cfg, u, vs, en.T)
			e.Hostile = s%2 == 1 // every other script: the caller reuses its key and value buffers
			en.T.Emit(h.Ev{"ev": "reset", "n": nkeys, "seed": en.Seed, "prof": "lockstep", "script": s})
			if e.Open(cfg) == "ok" {
				e.Dump()
				for _, st := range sc {
					if e.Dead {
						break
					}
					switch st.op {
					case "Restart":
						if e.Close() != "ok" || e.Open(cfg) != "ok" {
							e.Dead = true
						}
					case "Iterate":
						iterate(e, st.a)
					case "IterMut":
						iterMut(e, st, nkeys)
					default:
						e.Do(h.Step{Op: st.op, K: st.k, V: st.v, A: st.a})
					}
					if st.op != "NewBatch" && st.op != "BPut" && st.op != "BDelete" && st.op != "BGet" {
						e.Dump()
					}
				}
				if !e.Dead && e.DB != nil {
					h.WithoutCapture(func() { e.DB.Close() })
					if !batches {
						if byLimit[cfg.Limit] == nil {
							byLimit[cfg.Limit] = map[string]int{}
						}
						byLimit[cfg.Limit][dirHash(dir)]++
					}
				}
			}
			digests[e.TxDigest()]++
			en.Drop(dir)
		}
		en.T.Emit(h.Ev{"ev": "note", "check": "xcfg", "ok": len(digests) == 1, "n": len(cfgs), "distinct": len(digests)})
		if !batches {
			ok := true
			for _, m := range byLimit {
				if len(m) != 1 {
					ok = false
				}
			}
			en.T.Emit(h.Ev{"ev": "note", "check": "xbytes", "ok": ok, "n": len(cfgs), "distinct": len(byLimit)})
		}
	}
	en.Summary["scripts"] = scripts
}
