package main

import (
	"verifharness/h"
)

// Profile restart (C02): (a) random histories with clean restarts into a
// *different* configuration; (b) the end-offset sweep: a data file is made to
// end at a chosen offset of block 0, 1 or 2, closed, and reopened under both
// I/O back-ends.
func init() { profiles["restart"] = profRestart }

func profRestart(en *Env) {
	traces := 8 * en.Scale
	ops := 40
	if en.Thorough() {
		traces = 100 * en.Scale
		ops = 60
	}
	for t := 0; t < traces; t++ {
		cfg := h.CoverCfg(en.R, t, smallLimits)
		randomWorkload(en, cfg, 3+en.R.Intn(6), genOpts{batches: true, merges: true, restarts: true, backups: t%2 == 1, ops: ops, prof: "restart"},
			func() h.Cfg { return h.RandCfg(en.R, smallLimits) })
	}
	// end-offset sweep
	offs := []int{}
	if en.Thorough() {
		for e := 0; e < h.BlockSize; e++ {
			offs = append(offs, e)
		}
	} else {
		for e := h.BlockSize - 16; e < h.BlockSize; e++ {
			offs = append(offs, e)
		}
		for e := 0; e <= 24; e++ {
			offs = append(offs, e)
		}
		for i := 0; i < 40; i++ {
			offs = append(offs, 25+en.R.Intn(h.BlockSize-41))
		}
	}
	cases := 0
	for _, e := range offs {
		blocks := []int{0, 1, 2}
		if en.Thorough() {
			blocks = []int{en.R.Intn(3)}
			if e >= h.BlockSize-16 || e <= 24 {
				blocks = []int{0, 1, 2}
			}
		}
		for _, b := range blocks {
			if sweepCase(en, b, e) {
				cases++
			}
		}
	}
	en.Summary["sweep_cases"] = cases
	en.Summary["traces"] = traces
}

// sweepCase makes file 0 end at offset e of block b (if reachable through
// DB.Put), then restarts under the other back-end, writes again, restarts.
func sweepCase(en *Env, b, e int) bool {
	const klen = 6
	target := int64(b)*h.BlockSize + int64(e)
	// plan: (optional) filler ending well inside the previous/current block, then one record ending at target
	var lens []int
	if v := h.VlenForEnd(0, klen, target); b == 0 && v >= 0 {
		lens = []int{v}
	} else if b > 0 {
		// one multi-block record from offset 0: chunks of 32761 payload bytes, last chunk c = e-7 bytes
		if e == 0 {
			// end exactly at the boundary: last chunk fills block b-1 completely
			n := b * (h.BlockSize - h.ChunkHdr)
			lens = []int{n - h.RecLen(klen, 0) + 0}
		} else if e >= 8 {
			n := b*(h.BlockSize-h.ChunkHdr) + (e - h.ChunkHdr)
			lens = []int{n - h.RecLen(klen, 0)}
		}
		if len(lens) == 1 {
			// header length depends on the value length's varint size: adjust
			for d := -6; d <= 6; d++ {
				v := lens[0] + d
				if v >= 0 && h.RecLen(klen, v) == lens[0]+h.RecLen(klen, 0) {
					lens[0] = v
					break
				}
			}
		}
	}
	if len(lens) == 0 {
		return false
	}
	dir := en.FreshDir()
	defer en.Drop(dir)
	u := h.SimpleKeys(3, klen)
	vs := h.NewValues()
	io1 := h.IOTypes[en.R.Intn(2)]
	cfg := h.Cfg{Index: h.IndexTypes[en.R.Intn(3)], Shards: 16, IO: io1, Limit: 1 << 22, Sync: "no"}
	e1 := h.NewEng(dir, en.Work+"/scratch", cfg, u, vs, en.T)
	en.T.Emit(h.Ev{"ev": "reset", "n": 3, "seed": en.Seed, "prof": "sweep", "block": b, "off": e})
	if e1.Open(cfg) != "ok" {
		return true
	}
	for i, n := range lens {
		id, _ := vs.New(n)
		e1.Put(1+i%3, id)
	}
	e1.Dump()
	if e1.Dead || e1.Close() != "ok" {
		return true
	}
	for _, io2 := range []string{"std", "mmap"} {
		c2 := cfg
		c2.IO = io2
		c2.Index = h.IndexTypes[en.R.Intn(3)]
		if e1.Open(c2) != "ok" {
			return true
		}
		e1.Dump()
		if io2 == "mmap" {
			// write after the restart (the next record must start after padding) and restart once more
			id, _ := vs.New(5 + en.R.Intn(40))
			e1.Put(3, id)
			e1.Dump()
		}
		if e1.Dead || e1.Close() != "ok" {
			return true
		}
	}
	c3 := cfg
	c3.IO = "std"
	if e1.Open(c3) == "ok" {
		e1.Dump()
		h.WithoutCapture(func() { e1.DB.Close() })
	}
	return true
}
