package main

import (
	"errors"
	"fmt"
	"time"

	kv "github.com/XiXi-2024/xixi-kv"
	"github.com/XiXi-2024/xixi-kv/datatype"
	"verifharness/h"
)

// Profile types (C19): seeded command sequences over 3 keys mixing all five
// types, Del and re-creation with another type, restarts; expiry is made
// deterministic with TTLs of -1 s (already expired) and +1 h.
func init() { profiles["types"] = profTypes }

func typesErr(err error) string {
	switch {
	case err == nil:
		return "ok"
	case errors.Is(err, datatype.ErrWrongTypeOperation):
		return "wrongtype"
	case errors.Is(err, kv.ErrKeyNotFound):
		return "notfound"
	}
	return "err:" + err.Error()
}

func profTypes(en *Env) {
	traces := 20 * en.Scale
	ncmd := 60
	if en.Thorough() {
		traces = 400 * en.Scale
		ncmd = 100
	}
	cmds := 0
	for t := 0; t < traces; t++ {
		cmds += typesTrace(en, t, ncmd)
	}
	en.Summary["traces"] = traces
	en.Summary["commands"] = cmds
}

func typesTrace(en *Env, t int, ncmd int) int {
	r := en.R
	cfg := h.CoverCfg(r, t, []int64{500, 5000, 1 << 20})
	dir := en.FreshDir()
	defer en.Drop(dir)
	nkeys := 3
	vs := h.NewValues()
	keyOf := func(k int) []byte { return []byte(fmt.Sprintf("tkey-%d", k)) }
	elemOf := func(x int) []byte { return []byte(fmt.Sprintf("elem-%02d", x)) }
	var svc *datatype.DataTypeService
	open := func() string {
		return h.Guard(h.CallTimeout, func() error {
			var err error
			svc, err = datatype.NewDataTypeService(cfg.Options(dir))
			return err
		})
	}
	en.T.Emit(h.Ev{"ev": "reset", "n": nkeys, "seed": en.Seed, "prof": "types", "cfg": cfg.Ev()})
	if open() != "ok" {
		return 0
	}
	// list elements are values themselves: element ids double as value ids (interned so that they map back)
	elemVal := map[int]int{}
	for x := 1; x <= 4; x++ {
		elemVal[x] = vs.Intern(elemOf(x))
	}
	typeNames := map[byte]string{0: "string", 1: "hash", 2: "set", 3: "list", 4: "zset"}
	names := []string{"Set", "Get", "Del", "Type", "HSet", "HGet", "HDel", "SAdd", "SIsMember", "SRem", "LPush", "RPush", "LPop", "RPop", "ZAdd", "ZScore"}
	// value sizes: mostly small; one in six within a few hundred bytes of the file-size limit (the record, or the
	// container's metadata record plus the element record, then no longer fits one data file)
	vsize := func() int {
		if cfg.Limit <= 70000 && r.Intn(6) == 0 {
			if n := int(cfg.Limit) - 300 + r.Intn(450); n > 0 {
				return n
			}
		}
		return 1 + r.Intn(40)
	}
	// exec runs one command on the given service and returns its event and the outcome of the guard
	exec := func(sv *datatype.DataTypeService, k int, c string, x int) (h.Ev, string) {
		ev := h.Ev{"ev": "cmd", "k": k, "c": c, "x": 0, "v": 0, "sc": 0, "exp": false, "err": "ok", "b": false, "n": 0, "vres": 0, "tname": ""}
		key := keyOf(k)
		name := h.Guard(h.CallTimeout, func() error {
			switch c {
			case "Set":
				vid, vb := vs.New(vsize())
				ttl := []time.Duration{0, -time.Second, time.Hour}[r.Intn(3)]
				ev["v"], ev["exp"] = vid, ttl < 0
				ev["err"] = typesErr(sv.Set(key, vb, ttl))
			case "Get":
				b, err := sv.Get(key)
				ev["err"] = typesErr(err)
				if err == nil && b != nil {
					ev["vres"] = vs.ID(b)
				}
			case "Del":
				ev["err"] = typesErr(sv.Del(key))
			case "Type":
				tb, err := sv.Type(key)
				ev["err"] = typesErr(err)
				if err == nil {
					ev["tname"] = typeNames[tb]
				}
			case "HSet":
				vid, vb := vs.New(vsize())
				ev["x"], ev["v"] = x, vid
				b, err := sv.HSet(key, elemOf(x), vb)
				ev["b"], ev["err"] = b, typesErr(err)
			case "HGet":
				ev["x"] = x
				b, err := sv.HGet(key, elemOf(x))
				ev["err"] = typesErr(err)
				if err == nil && b != nil {
					ev["vres"] = vs.ID(b)
				}
			case "HDel":
				ev["x"] = x
				b, err := sv.HDel(key, elemOf(x))
				ev["b"], ev["err"] = b, typesErr(err)
			case "SAdd":
				ev["x"] = x
				b, err := sv.SAdd(key, elemOf(x))
				ev["b"], ev["err"] = b, typesErr(err)
			case "SIsMember":
				ev["x"] = x
				b, err := sv.SIsMember(key, elemOf(x))
				ev["b"], ev["err"] = b, typesErr(err)
			case "SRem":
				ev["x"] = x
				b, err := sv.SRem(key, elemOf(x))
				ev["b"], ev["err"] = b, typesErr(err)
			case "LPush", "RPush":
				ev["x"] = elemVal[x]
				var sz uint32
				var err error
				if c == "LPush" {
					sz, err = sv.LPush(key, elemOf(x))
				} else {
					sz, err = sv.RPush(key, elemOf(x))
				}
				ev["n"], ev["err"] = int(sz), typesErr(err)
			case "LPop", "RPop":
				var b []byte
				var err error
				if c == "LPop" {
					b, err = sv.LPop(key)
				} else {
					b, err = sv.RPop(key)
				}
				ev["err"] = typesErr(err)
				if err == nil && b != nil {
					ev["vres"] = vs.ID(b)
				}
			case "ZAdd":
				sc := 1 + r.Intn(3)
				ev["x"], ev["sc"] = x, sc
				b, err := sv.ZAdd(key, float64(sc), elemOf(x))
				ev["b"], ev["err"] = b, typesErr(err)
			case "ZScore":
				ev["x"] = x
				s, err := sv.ZScore(key, elemOf(x))
				ev["err"] = typesErr(err)
				if err == nil && s >= 0 {
					ev["b"], ev["n"] = true, int(s)
				}
			}
			return nil
		})
		return ev, name
	}
	type crashImg struct {
		dir string
		at  int // number of events of the trace that precede the interrupted command
		cmd h.Ev
	}
	crashy := t%2 == 0 && cfg.IO == "std"
	var images []crashImg
	var history []h.Ev
	n := 0
	// a key tends to stay with one family for a while so that containers grow
	family := map[int]int{}
	for i := 0; i < ncmd; i++ {
		k := 1 + r.Intn(nkeys)
		if r.Intn(12) == 0 || family[k] == 0 {
			family[k] = 1 + r.Intn(5)
		}
		var c string
		switch x := r.Intn(100); {
		case x < 8:
			c = "Del"
		case x < 12:
			c = "Type"
		case x < 22:
			c = names[r.Intn(len(names))] // any command, often of another type
		default:
			switch family[k] {
			case 1:
				c = []string{"Set", "Get", "Get"}[r.Intn(3)]
			case 2:
				c = []string{"HSet", "HSet", "HGet", "HDel"}[r.Intn(4)]
			case 3:
				c = []string{"SAdd", "SAdd", "SIsMember", "SRem"}[r.Intn(4)]
			case 4:
				c = []string{"LPush", "RPush", "LPop", "RPop"}[r.Intn(4)]
			default:
				c = []string{"ZAdd", "ZAdd", "ZScore"}[r.Intn(3)]
			}
		}
		x := 1 + r.Intn(4)
		// every third trace (standard I/O): the directory is copied at the entry of the first two writes to a data
		// file that an updating command issues (process death there); the images are recovered after the trace
		updating := c != "Get" && c != "Type" && c != "HGet" && c != "SIsMember" && c != "ZScore"
		var taken []string
		if crashy && updating && len(images) < 12 && (len(images) < 3 || r.Intn(3) == 0) {
			h.SetIOHandler(func(io h.IOEv) {
				if io.Phase != 0 || io.Kind != "write" || len(taken) >= 2 {
					return
				}
				if ref := h.RefOf(io.Path, dir); ref.D != 0 || ref.X != "data" {
					return
				}
				img := en.FreshDir()
				h.WithoutCapture(func() {
					if h.CopyImage(dir, img, nil, nil) == nil {
						taken = append(taken, img)
					}
				})
			})
		}
		ev, name := exec(svc, k, c, x)
		h.SetIOHandler(nil)
		for _, img := range taken {
			images = append(images, crashImg{img, len(history), ev})
		}
		if name != "ok" {
			ev["err"] = name
		}
		en.T.Emit(ev)
		history = append(history, ev)
		n++
		h.ExitIfStuck(name, en.T)
		if name == "panic" {
			return n
		}
		if r.Intn(15) == 0 {
			cn := h.Guard(h.CallTimeout, func() error { return svc.Close() })
			on := "ok"
			if cn == "ok" && r.Intn(2) == 0 {
				// between two sessions of the service the store is opened directly and merged (the next session
				// adopts the merge): records with empty values - set members, score-index entries - are live too
				on = h.Guard(h.CallTimeout, func() error {
					db, err := kv.Open(cfg.Options(dir))
					if err != nil {
						return err
					}
					merr := db.Merge()
					if err := db.Close(); err != nil {
						return err
					}
					if merr != nil && !errors.Is(merr, kv.ErrMergeOutputTooLarge) {
						return merr
					}
					return nil
				})
			}
			if cn == "ok" && on == "ok" {
				on = open()
			} else if cn != "ok" {
				on = cn
			}
			en.T.Emit(h.Ev{"ev": "restart", "err": on})
			history = append(history, h.Ev{"ev": "restart", "err": on})
			if on != "ok" {
				return n
			}
		}
	}
	h.Guard(h.CallTimeout, func() error { return svc.Close() })
	// every image is a trace of its own: the commands that preceded the interrupted one (as logged), the interrupted
	// command as a "crashed" event (its effect took place entirely or not at all), the recovery, then commands on
	// the interrupted key
	for _, im := range images {
		en.T.Emit(h.Ev{"ev": "reset", "n": nkeys, "seed": en.Seed, "prof": "types-crash", "cfg": cfg.Ev()})
		for _, e := range history[:im.at] {
			en.T.Emit(e)
		}
		ce := h.Ev{"ev": "crashed"}
		for _, f := range []string{"k", "c", "x", "v", "sc", "exp"} {
			ce[f] = im.cmd[f]
		}
		en.T.Emit(ce)
		var sv *datatype.DataTypeService
		on := h.Guard(h.CallTimeout, func() error {
			var err error
			sv, err = datatype.NewDataTypeService(cfg.Options(im.dir))
			return err
		})
		en.T.Emit(h.Ev{"ev": "restart", "err": on})
		if on == "ok" {
			k := im.cmd["k"].(int)
			fam := map[string][]string{"H": {"HSet", "HGet", "HGet", "HDel", "HDel"}, "S": {"SAdd", "SIsMember", "SIsMember", "SRem", "SRem"},
				"L": {"LPush", "RPush", "LPop", "RPop"}, "R": {"LPush", "RPush", "LPop", "RPop"}, "Z": {"ZAdd", "ZScore", "ZScore"}}[im.cmd["c"].(string)[:1]]
			if fam == nil || im.cmd["c"] == "Set" {
				fam = []string{"Get", "Type", "HGet", "SIsMember", "LPop", "ZScore"}
			}
			for i := 0; i < 24; i++ {
				c := fam[r.Intn(len(fam))]
				if r.Intn(8) == 0 {
					c = []string{"Type", "Get"}[r.Intn(2)]
				}
				ev, name := exec(sv, k, c, 1+r.Intn(4))
				if name != "ok" {
					ev["err"] = name
				}
				en.T.Emit(ev)
				n++
				if name == "panic" || name == "stuck" {
					break
				}
			}
			h.Guard(h.CallTimeout, func() error { return sv.Close() })
		}
		en.Drop(im.dir)
	}
	return n
}
