package main

import (
	"sync"

	kv "github.com/XiXi-2024/xixi-kv"
	"verifharness/h"
)

// Profile mergepower (C03, power failure around a finished merge).
func init() { profiles["mergepower"] = profMergePower }

func profMergePower(en *Env) {
	traces := 6 * en.Scale
	if en.Thorough() {
		traces = 36 * en.Scale
	}
	stats := map[string]int{}
	for t := 0; t < traces; t++ {
		mergePowerTrace(en, t, stats)
	}
	en.Summary["traces"] = traces
	en.Summary["stats"] = stats
}

// mergePowerTrace (predicted by TLC on XiXiKV with merge + powerloss): a value is acknowledged and made durable
// (the merge's rotation flushes its file); while the merge is parked right after its rotation the key is
// overwritten (or deleted) in the new active file, which is not flushed; the merge scan then treats the old
// record as dead and drops it; the merge finishes (marker written); power fails: the unflushed tail of the
// active file is lost while the finished merge survives. Recovery must still expose the durable value.
func mergePowerTrace(en *Env, t int, stats map[string]int) {
	r := en.R
	cfg := h.Cfg{Index: h.IndexTypes[t%3], Shards: []int{1, 4, 16}[(t/3)%3], IO: "std", Limit: []int64{400, 2000, 40000}[t%3], Sync: "no", BPS: 0}
	if t%4 == 3 {
		cfg.Sync, cfg.BPS = "threshold", 100000 // under Always every Put is flushed before it returns: nothing can be lost
	}
	nkeys := 3 + r.Intn(3)
	dir := en.FreshDir()
	defer en.Drop(dir)
	u := h.SimpleKeys(nkeys, 6)
	vs := h.NewValues()
	e := h.NewEng(dir, en.Work+"/scratch", cfg, u, vs, en.T)
	en.T.Emit(h.Ev{"ev": "reset", "n": nkeys, "seed": en.Seed, "prof": "mergepower", "cfg": cfg.Ev()})
	c := h.NewCrasher(e, en.Work+"/img")
	c.WithMerge = true
	c.MaxImages = 0
	if e.Open(cfg) != "ok" {
		c.Stop()
		c.Flush(nil)
		return
	}
	val := func() int { id, _ := vs.New(20 + r.Intn(120)); return id }
	for k := 1; k <= nkeys; k++ {
		e.Put(k, val())
	}
	for i := r.Intn(6); i > 0; i-- { // some garbage so that the merge has something to drop
		if r.Intn(4) == 0 {
			e.Delete(1 + r.Intn(nkeys))
		} else {
			e.Put(1+r.Intn(nkeys), val())
		}
	}
	if t%2 == 1 {
		e.Sync()
	}
	started, done := make(chan struct{}), make(chan struct{})
	relStart, relDone := make(chan struct{}), make(chan struct{})
	scanned, relScanned := make(chan struct{}), make(chan struct{})
	var once1, once2, once3 sync.Once
	orig := kv.VerifPoint
	kv.VerifPoint = func(name string, arg uint32) {
		switch name {
		case "merge.started":
			once1.Do(func() { close(started); <-relStart })
		case "merge.scanned":
			once3.Do(func() { close(scanned); <-relScanned })
		case "merge.done":
			once2.Do(func() { close(done); <-relDone })
		}
	}
	mergeDone := make(chan struct{})
	go func() {
		defer close(mergeDone)
		e.DB.Merge()
	}()
	select {
	case <-started:
	case <-mergeDone:
	}
	// mutations that supersede durable records; they land in the new, unflushed active file
	for i := 1 + r.Intn(3); i > 0; i-- {
		k := 1 + r.Intn(nkeys)
		switch r.Intn(4) {
		case 0:
			e.Delete(k)
		case 1:
			e.NewBatch(false)
			e.BPut(k, val())
			e.BDelete(1 + r.Intn(nkeys))
			e.Commit()
		default:
			e.Put(k, val())
		}
	}
	close(relStart)
	select {
	case <-scanned:
		// scan finished, nothing marked yet: the merge directory must be ignored whatever survives of the active file
		c.MaxImages = 10
		c.Snapshot("mergepower.scanned")
		c.MaxImages = 0
		stats["mergepower_scanned_images"]++
		close(relScanned)
	case <-mergeDone:
	}
	select {
	case <-done:
		c.MaxImages = 10
		c.Snapshot("mergepower.marked")
		stats["mergepower_images"]++
		// further unflushed writes next to the marked merge directory
		for i := 1 + r.Intn(2); i > 0; i-- {
			if r.Intn(3) == 0 {
				e.Delete(1 + r.Intn(nkeys))
			} else {
				e.Put(1+r.Intn(nkeys), val())
			}
		}
		c.Snapshot("mergepower.after")
		c.MaxImages = 0
	case <-mergeDone:
		stats["mergepower_merge_gave_up"]++
	}
	close(relDone)
	<-mergeDone
	kv.VerifPoint = orig
	if !e.Dead && e.DB != nil {
		e.Close()
	}
	c.Stop()
	obs := c.Explore(false, true, 2, stats)
	c.Flush(obs)
}
