package main

import (
	"bufio"
	"crypto/sha1"
	"encoding/hex"
	"fmt"
	"io"
	"os"
	"os/exec"
	"path/filepath"
	"sort"
	"strconv"
	"strings"
	"time"

	kv "github.com/XiXi-2024/xixi-kv"
	"verifharness/h"
)

// Profile dirlock (C16): the driver re-executes itself as child processes
// controlled over pipes; seeded schedules of Open/Close attempts by several
// processes and several goroutines per process on one directory, Opens that
// fail for another reason (a corrupted data file), Opens racing each other
// from a barrier on fresh and existing directories; the directory's
// fingerprint is taken before and after every rejected Open.
func init() {
	profiles["dirlock"] = profDirLock
	profiles["lockchild"] = lockChild
}

// ---- child: obeys "open <slot> <dir> [<unixnano>]", "close <slot>", "quit"
func lockChild(en *Env) {
	slots := map[int]*kv.DB{}
	in := bufio.NewReader(os.Stdin)
	out := bufio.NewWriter(os.Stdout)
	for {
		line, err := in.ReadString('\n')
		if err != nil {
			return
		}
		f := strings.Fields(line)
		if len(f) == 0 {
			continue
		}
		switch f[0] {
		case "quit":
			return
		case "open":
			slot, _ := strconv.Atoi(f[1])
			if len(f) > 3 {
				at, _ := strconv.ParseInt(f[3], 10, 64)
				time.Sleep(time.Until(time.Unix(0, at)))
			}
			o := kv.DefaultOptions
			o.DirPath = f[2]
			o.DataFileSize = 1 << 20
			var db *kv.DB
			name := h.Guard(h.CallTimeout, func() error {
				var err error
				db, err = kv.Open(o)
				return err
			})
			if name == "ok" {
				slots[slot] = db
			}
			fmt.Fprintf(out, "res %s\n", strings.ReplaceAll(name, " ", "_"))
		case "close":
			slot, _ := strconv.Atoi(f[1])
			name := "notopen"
			if db := slots[slot]; db != nil {
				name = h.Guard(h.CallTimeout, func() error { return db.Close() })
				delete(slots, slot)
			}
			fmt.Fprintf(out, "res %s\n", name)
		}
		out.Flush()
	}
}

type child struct {
	cmd *exec.Cmd
	in  io.WriteCloser
	out *bufio.Reader
}

func startChild(en *Env) *child {
	cmd := exec.Command(os.Args[0], "lockchild", "-work", en.Work, "-out", filepath.Join(en.Work, "child.ndjson"))
	in, _ := cmd.StdinPipe()
	outp, _ := cmd.StdoutPipe()
	cmd.Stderr = os.Stderr
	if err := cmd.Start(); err != nil {
		return nil
	}
	return &child{cmd, in, bufio.NewReader(outp)}
}

func (c *child) send(format string, a ...any) { fmt.Fprintf(c.in, format+"\n", a...) }
func (c *child) recv() string {
	line, err := c.out.ReadString('\n')
	if err != nil {
		return "died"
	}
	return strings.TrimPrefix(strings.TrimSpace(line), "res ")
}

func fingerprint(dir string) string {
	hs := sha1.New()
	names, _ := h.ListDir(dir)
	sort.Strings(names)
	for _, n := range names {
		b, _ := os.ReadFile(filepath.Join(dir, n))
		fmt.Fprintf(hs, "%s %d ", n, len(b))
		hs.Write(b)
	}
	return hex.EncodeToString(hs.Sum(nil))
}

func profDirLock(en *Env) {
	rounds := 3 * en.Scale
	steps := 40
	if en.Thorough() {
		rounds = 25 * en.Scale
		steps = 80
	}
	nproc := 3
	var kids []*child
	for i := 0; i < nproc; i++ {
		if c := startChild(en); c != nil {
			kids = append(kids, c)
		}
	}
	defer func() {
		for _, c := range kids {
			c.send("quit")
			c.in.Close()
			c.cmd.Wait()
		}
	}()
	if len(kids) < 2 {
		en.Summary["note"] = "child processes could not be started"
		return
	}
	r := en.R
	attempts := 0
	for rd := 0; rd < rounds; rd++ {
		dir := en.FreshDir()
		fresh := rd%3 == 0
		corrupt := false
		var dataFile string
		var orig []byte
		if !fresh {
			// an existing directory with some data
			o := kv.DefaultOptions
			o.DirPath = dir
			if db, err := kv.Open(o); err == nil {
				for i := 0; i < 5; i++ {
					db.Put([]byte(fmt.Sprintf("key%d", i)), []byte(fmt.Sprintf("value-%d-%d", rd, i)))
				}
				db.Close()
			}
			dataFile = filepath.Join(dir, "000000000.data")
			orig, _ = os.ReadFile(dataFile)
		}
		en.T.Emit(h.Ev{"ev": "reset", "corrupt": false, "fresh": fresh})
		open := map[int]bool{} // opener id -> believed open (mechanics: which close commands make sense)
		for s := 0; s < steps; s++ {
			p := r.Intn(len(kids))
			g := r.Intn(2)
			o := (p+1)*10 + g
			switch x := r.Intn(100); {
			case x < 50 && !open[o]:
				before := fingerprint(dir)
				kids[p].send("open %d %s", g, dir)
				res := kids[p].recv()
				after := fingerprint(dir)
				en.T.Emit(h.Ev{"ev": "lk", "o": o, "act": "open", "res": res, "same": before == after})
				if res == "ok" {
					open[o] = true
				}
				attempts++
			case x < 75 && open[o]:
				kids[p].send("close %d", g)
				res := kids[p].recv()
				en.T.Emit(h.Ev{"ev": "lk", "o": o, "act": "close", "res": res, "same": true})
				delete(open, o)
			case x < 83 && len(open) == 0 && !fresh && len(orig) > 20:
				// damage / repair the directory while nobody has it open
				corrupt = !corrupt
				b := append([]byte(nil), orig...)
				if corrupt {
					b[10] ^= 0x55
				}
				os.WriteFile(dataFile, b, 0644)
				en.T.Emit(h.Ev{"ev": "setdir", "corrupt": corrupt})
			case x < 95:
				// racing Opens from a barrier (all closed openers of all processes, slot 0 and 1)
				var os_ []int
				type who struct{ p, g int }
				var ws []who
				for pi := range kids {
					gi := r.Intn(2)
					if !open[(pi+1)*10+gi] {
						ws = append(ws, who{pi, gi})
						os_ = append(os_, (pi+1)*10+gi)
					}
				}
				if len(ws) < 2 {
					continue
				}
				at := time.Now().Add(30 * time.Millisecond).UnixNano()
				for _, w := range ws {
					kids[w.p].send("open %d %s %d", w.g, dir, at)
				}
				res := []string{}
				for i, w := range ws {
					rr := kids[w.p].recv()
					res = append(res, rr)
					if rr == "ok" {
						open[os_[i]] = true
					}
				}
				en.T.Emit(h.Ev{"ev": "race", "os": os_, "res": res})
				attempts += len(ws)
			}
		}
		for o := range open {
			kids[o/10-1].send("close %d", o%10)
			res := kids[o/10-1].recv()
			en.T.Emit(h.Ev{"ev": "lk", "o": o, "act": "close", "res": res, "same": true})
		}
		en.Drop(dir)
	}
	en.Summary["attempts"] = attempts
	en.Summary["processes"] = len(kids)
}
