package main

import (
	"bufio"
	"crypto/sha1"
	"encoding/hex"
	"fmt"
	"io"
	"os"
	"os/exec"
	"path/filepath"
	"sort"
	"strconv"
	"strings"
	"sync"
	"time"

	kv "github.com/XiXi-2024/xixi-kv"
	"github.com/XiXi-2024/xixi-kv/fio"
	"github.com/XiXi-2024/xixi-kv/index"
	"verifharness/h"
)

// Profile dirlock (C16): the driver re-executes itself as child processes
// controlled over pipes; seeded schedules of Open/Close attempts by several
// processes and several goroutines per process on one directory, Opens that
// fail for another reason (a corrupted data file), Opens racing each other
// from a barrier on fresh and existing directories; the directory's
// fingerprint is taken before and after every rejected Open.
func init() {
	profiles["dirlock"] = profDirLock
	profiles["lockchild"] = lockChild
}

// ---- child: obeys "open <slot> <dir> [<unixnano>]", "close <slot>", "quit"
type pclose struct {
	release chan struct{}
	done    chan string
}

func lockChild(en *Env) {
	slots := map[int]*kv.DB{}
	parkedClose := map[int]*pclose{}
	parkedOpen := map[int]*pclose{}
	stale := map[int]*kv.DB{} // slot -> the handle it closed last
	in := bufio.NewReader(os.Stdin)
	out := bufio.NewWriter(os.Stdout)
	for {
		line, err := in.ReadString('\n')
		if err != nil {
			return
		}
		f := strings.Fields(line)
		if len(f) == 0 {
			continue
		}
		switch f[0] {
		case "quit":
			return
		case "open":
			slot, _ := strconv.Atoi(f[1])
			if len(f) > 3 {
				at, _ := strconv.ParseInt(f[3], 10, 64)
				time.Sleep(time.Until(time.Unix(0, at)))
			}
			o := kv.DefaultOptions
			o.DirPath = f[2]
			o.DataFileSize = 1 << 20
			if len(f) > 4 {
				// the lock must not depend on how the database is configured
				switch f[4] {
				case "1":
					o.IndexType, o.ShardNum = index.BTree, 1
				case "2":
					o.IndexType, o.SyncStrategy = index.SkipList, kv.Always
				case "3":
					o.EnableBackgroundMerge = true
				case "4":
					o.ShardNum, o.SyncStrategy, o.BytesPerSync = 1024, kv.Threshold, 64
				}
			}
			var db *kv.DB
			name := h.Guard(h.CallTimeout, func() error {
				var err error
				db, err = kv.Open(o)
				return err
			})
			if name == "ok" {
				slots[slot] = db
			}
			fmt.Fprintf(out, "res %s\n", strings.ReplaceAll(name, " ", "_"))
		case "ropen":
			// ropen <dir> <unixnano> <slot>...: the given goroutine slots open the directory at the same instant
			at, _ := strconv.ParseInt(f[2], 10, 64)
			var slotsToOpen []int
			for _, x := range f[3:] {
				sl, _ := strconv.Atoi(x)
				slotsToOpen = append(slotsToOpen, sl)
			}
			results := make([]string, len(slotsToOpen))
			dbs := make([]*kv.DB, len(slotsToOpen))
			var wg sync.WaitGroup
			for i := range slotsToOpen {
				wg.Add(1)
				go func(i int) {
					defer wg.Done()
					time.Sleep(time.Until(time.Unix(0, at)))
					o := kv.DefaultOptions
					o.DirPath = f[1]
					o.DataFileSize = 1 << 20
					results[i] = h.Guard(h.CallTimeout, func() error {
						var err error
						dbs[i], err = kv.Open(o)
						return err
					})
				}(i)
			}
			wg.Wait()
			for i, sl := range slotsToOpen {
				if results[i] == "ok" {
					slots[sl] = dbs[i]
				}
				results[i] = strings.ReplaceAll(results[i], " ", "_")
			}
			fmt.Fprintf(out, "res %s\n", strings.Join(results, " "))
		case "openpark":
			// openpark <slot> <dir>: Open runs on its own goroutine and is parked (blocking hook) right after it has taken
			// the directory lock; answers "parked", or the result if Open returned without reaching that point
			slot, _ := strconv.Atoi(f[1])
			o := kv.DefaultOptions
			o.DirPath = f[2]
			o.DataFileSize = 1 << 20
			parked, release, done := make(chan struct{}), make(chan struct{}), make(chan string, 1)
			var once sync.Once
			kv.VerifPoint = func(name string, arg uint32) {
				if name == "open.locked" {
					once.Do(func() { close(parked); <-release })
				}
			}
			go func() {
				var db *kv.DB
				name := h.Guard(h.CallTimeout, func() error {
					var err error
					db, err = kv.Open(o)
					return err
				})
				if name == "ok" {
					slots[slot] = db
				}
				done <- name
			}()
			select {
			case <-parked:
				parkedOpen[slot] = &pclose{release, done}
				fmt.Fprintf(out, "res parked\n")
			case r := <-done:
				kv.VerifPoint = nil
				fmt.Fprintf(out, "res done:%s\n", strings.ReplaceAll(r, " ", "_"))
			}
		case "opengo":
			slot, _ := strconv.Atoi(f[1])
			po := parkedOpen[slot]
			if po == nil {
				fmt.Fprintf(out, "res notparked\n")
				break
			}
			close(po.release)
			r := <-po.done
			kv.VerifPoint = nil
			delete(parkedOpen, slot)
			fmt.Fprintf(out, "res %s\n", strings.ReplaceAll(r, " ", "_"))
		case "work":
			// work <slot> <n>: the holder uses its database - a few writes and a Merge (none of which may let go of the lock)
			slot, _ := strconv.Atoi(f[1])
			name := "notopen"
			if db := slots[slot]; db != nil {
				name = h.Guard(h.CallTimeout, func() error {
					for i := 0; i < 12; i++ {
						if err := db.Put([]byte(fmt.Sprintf("key%d", i%5)), []byte(fmt.Sprintf("w-%s-%d", f[2], i))); err != nil {
							return err
						}
					}
					db.Delete([]byte("key1"))
					if err := db.Merge(); err != nil {
						return err
					}
					return db.Sync()
				})
			}
			fmt.Fprintf(out, "res %s\n", strings.ReplaceAll(name, " ", "_"))
		case "closepark":
			// closepark <slot>: Close runs on its own goroutine and is parked (blocking I/O hook) at the entry of the
			// close of its first data file, i.e. in the middle of Close; answers "parked", or the result if Close
			// returned without closing a data file
			slot, _ := strconv.Atoi(f[1])
			db := slots[slot]
			if db == nil {
				fmt.Fprintf(out, "res notopen\n")
				break
			}
			parked, release, done := make(chan struct{}), make(chan struct{}), make(chan string, 1)
			var once sync.Once
			fio.VerifIO = func(phase int, kind, name string, n int64) {
				if phase == 0 && kind == "close" && strings.HasSuffix(name, ".data") {
					once.Do(func() { close(parked); <-release })
				}
			}
			go func() { done <- h.Guard(h.CallTimeout, func() error { return db.Close() }) }()
			select {
			case <-parked:
				parkedClose[slot] = &pclose{release, done}
				fmt.Fprintf(out, "res parked\n")
			case r := <-done:
				fio.VerifIO = nil
				delete(slots, slot)
				fmt.Fprintf(out, "res done:%s\n", r)
			}
		case "closego":
			slot, _ := strconv.Atoi(f[1])
			pc := parkedClose[slot]
			if pc == nil {
				fmt.Fprintf(out, "res notparked\n")
				break
			}
			close(pc.release)
			r := <-pc.done
			fio.VerifIO = nil
			delete(parkedClose, slot)
			delete(slots, slot)
			fmt.Fprintf(out, "res %s\n", r)
		case "close":
			slot, _ := strconv.Atoi(f[1])
			name := "notopen"
			if db := slots[slot]; db != nil {
				name = h.Guard(h.CallTimeout, func() error { return db.Close() })
				delete(slots, slot)
				stale[slot] = db
			}
			fmt.Fprintf(out, "res %s\n", name)
		case "reclose":
			// reclose <slot>: Close is called once more on the handle that this slot closed last (a second Close of a
			// closed database changes nothing - in particular not the lock somebody else may hold by now)
			slot, _ := strconv.Atoi(f[1])
			name := "nohandle"
			if db := stale[slot]; db != nil {
				name = h.Guard(h.CallTimeout, func() error { return db.Close() })
			}
			fmt.Fprintf(out, "res %s\n", strings.ReplaceAll(name, " ", "_"))
		}
		out.Flush()
	}
}

type child struct {
	cmd *exec.Cmd
	in  io.WriteCloser
	out *bufio.Reader
}

func startChild(en *Env) *child {
	cmd := exec.Command(os.Args[0], "lockchild", "-work", en.Work, "-out", filepath.Join(en.Work, "child.ndjson"))
	in, _ := cmd.StdinPipe()
	outp, _ := cmd.StdoutPipe()
	cmd.Stderr = os.Stderr
	if err := cmd.Start(); err != nil {
		return nil
	}
	return &child{cmd, in, bufio.NewReader(outp)}
}

func (c *child) send(format string, a ...any) { fmt.Fprintf(c.in, format+"\n", a...) }
func (c *child) recv() string {
	for {
		line, err := c.out.ReadString('\n')
		if err != nil {
			return "died"
		}
		if strings.HasPrefix(line, "res ") { // (anything else is the engine's own output)
			return strings.TrimPrefix(strings.TrimSpace(line), "res ")
		}
	}
}

func fingerprint(dir string) string {
	hs := sha1.New()
	names, _ := h.ListDir(dir)
	sort.Strings(names)
	for _, n := range names {
		b, _ := os.ReadFile(filepath.Join(dir, n))
		fmt.Fprintf(hs, "%s %d ", n, len(b))
		hs.Write(b)
	}
	return hex.EncodeToString(hs.Sum(nil))
}

func profDirLock(en *Env) {
	rounds := 8 * en.Scale
	steps := 40
	if en.Thorough() {
		rounds = 25 * en.Scale
		steps = 80
	}
	nproc := 3
	var kids []*child
	for i := 0; i < nproc; i++ {
		if c := startChild(en); c != nil {
			kids = append(kids, c)
		}
	}
	defer func() {
		for _, c := range kids {
			c.send("quit")
			c.in.Close()
			c.cmd.Wait()
		}
	}()
	if len(kids) < 2 {
		en.Summary["note"] = "child processes could not be started"
		return
	}
	r := en.R
	attempts := 0
	nkind := 0
	for rd := 0; rd < rounds; rd++ {
		dir := en.FreshDir()
		fresh := rd%3 == 0
		corrupt := false
		var dataFile, dmgFile string
		var orig, dmgOrig []byte
		if !fresh {
			// an existing directory with some data
			o := kv.DefaultOptions
			o.DirPath = dir
			if db, err := kv.Open(o); err == nil {
				for i := 0; i < 5; i++ {
					db.Put([]byte(fmt.Sprintf("key%d", i)), []byte(fmt.Sprintf("value-%d-%d", rd, i)))
				}
				db.Close()
			}
			dataFile = filepath.Join(dir, "000000000.data")
			orig, _ = os.ReadFile(dataFile)
		}
		en.T.Emit(h.Ev{"ev": "reset", "corrupt": false, "fresh": fresh})
		open := map[int]bool{}       // opener id -> believed open (mechanics: which close commands make sense)
		closedOnce := map[int]bool{} // opener id -> has a handle that it closed (in this directory)
		race := func() {
			// racing Opens from a barrier (one closed goroutine slot of every process)
			var os_ []int
			type who struct{ p, g int }
			var ws []who
			for pi := range kids {
				gi := r.Intn(2)
				if !open[(pi+1)*10+gi] {
					ws = append(ws, who{pi, gi})
					os_ = append(os_, (pi+1)*10+gi)
				}
			}
			if len(ws) < 2 {
				return
			}
			at := time.Now().Add(30 * time.Millisecond).UnixNano()
			for _, w := range ws {
				kids[w.p].send("open %d %s %d", w.g, dir, at)
			}
			res := []string{}
			for i, w := range ws {
				rr := kids[w.p].recv()
				res = append(res, rr)
				if rr == "ok" {
					open[os_[i]] = true
				}
			}
			en.T.Emit(h.Ev{"ev": "race", "os": os_, "res": res})
			attempts += len(ws)
		}
		if fresh {
			// the very first attempts on a directory that does not exist yet race each other (no lock file
			// exists before the race), and the losers try again right away
			race()
			for pi := range kids {
				o := (pi+1)*10 + 1
				if open[o] || open[(pi+1)*10] {
					continue
				}
				before := fingerprint(dir)
				kids[pi].send("open %d %s", 1, dir)
				res := kids[pi].recv()
				en.T.Emit(h.Ev{"ev": "lk", "o": o, "act": "open", "res": res, "same": before == fingerprint(dir)})
				if res == "ok" {
					open[o] = true
				}
				attempts++
			}
		}
		for s := 0; s < steps; s++ {
			p := r.Intn(len(kids))
			g := r.Intn(2)
			o := (p+1)*10 + g
			switch x := r.Intn(100); {
			case x < 30 && !open[o] && closedOnce[o] && len(open) > 0:
				// a second Close on a handle that was closed earlier, while somebody else has the directory open by now;
				// then an attempt by a third opener: the directory is still in use
				kids[p].send("reclose %d", g)
				res := kids[p].recv()
				en.T.Emit(h.Ev{"ev": "lk", "o": o, "act": "reclose", "res": res, "same": true})
				for j := 1; j < len(kids); j++ {
					p2 := (p + j) % len(kids)
					o2 := (p2+1)*10 + 1 - g
					if open[o2] || open[(p2+1)*10+g] {
						continue
					}
					before := fingerprint(dir)
					kids[p2].send("open %d %s", 1-g, dir)
					res2 := kids[p2].recv()
					en.T.Emit(h.Ev{"ev": "lk", "o": o2, "act": "open", "res": res2, "same": before == fingerprint(dir)})
					attempts++
					if res2 == "ok" {
						open[o2] = true
					}
					break
				}
			case (x < 50 || (s == 0 && rd%2 == 1 && len(open) == 0)) && !open[o]:
				variant := r.Intn(5)
				if len(open) == 0 && (s == 0 || r.Intn(2) == 0) {
					variant = 3 // (nobody has the directory: this Open will be the owner)
				}
				before := fingerprint(dir)
				kids[p].send("open %d %s 0 %d", g, dir, variant)
				res := kids[p].recv()
				after := fingerprint(dir)
				en.T.Emit(h.Ev{"ev": "lk", "o": o, "act": "open", "res": res, "same": before == after, "variant": variant})
				if res == "ok" {
					open[o] = true
				}
				attempts++
				if variant == 3 && res == "ok" {
					// an owner with the background merge enabled: another process tries at once, then the owner closes (it is
					// not kept open: its merge goroutine may rewrite the directory, which the fingerprints would show)
					p2 := (p + 1 + r.Intn(len(kids)-1)) % len(kids)
					o2 := (p2+1)*10 + g
					if !open[o2] && !open[(p2+1)*10+1-g] {
						before := fingerprint(dir)
						kids[p2].send("open %d %s 0 %d", g, dir, r.Intn(5))
						res2 := kids[p2].recv()
						en.T.Emit(h.Ev{"ev": "lk", "o": o2, "act": "open", "res": res2, "same": before == fingerprint(dir)})
						attempts++
						if res2 == "ok" {
							open[o2] = true
						}
					}
					kids[p].send("close %d", g)
					res = kids[p].recv()
					en.T.Emit(h.Ev{"ev": "lk", "o": o, "act": "close", "res": res, "same": true})
					delete(open, o)
					closedOnce[o] = res == "ok"
				}
			case x < 50 && open[o] && len(open) == 1:
				// the owner's process dies without Close (the operating system drops its lock); a new process takes its
				// place; then an Open is parked right after it has taken the lock while another process tries to open
				kids[p].cmd.Process.Kill()
				kids[p].cmd.Wait()
				en.T.Emit(h.Ev{"ev": "died", "p": p + 1})
				delete(open, o)
				delete(open, (p+1)*10+1-g)
				delete(closedOnce, o) // (the new process has no handles of the old one)
				delete(closedOnce, (p+1)*10+1-g)
				if nk := startChild(en); nk != nil {
					kids[p] = nk
				} else {
					return
				}
				pa := (p + 1) % len(kids)
				oa := (pa+1)*10 + g
				kids[pa].send("openpark %d %s", g, dir)
				ra := kids[pa].recv()
				if ra != "parked" {
					ra = strings.TrimPrefix(ra, "done:")
					en.T.Emit(h.Ev{"ev": "lk", "o": oa, "act": "open", "res": ra, "same": true})
					if ra == "ok" {
						open[oa] = true
					}
					break
				}
				en.T.Emit(h.Ev{"ev": "lk", "o": oa, "act": "openbegin", "res": "parked", "same": true})
				pb := (pa + 1) % len(kids)
				ob := (pb+1)*10 + g
				before := fingerprint(dir)
				kids[pb].send("open %d %s", g, dir)
				rb := kids[pb].recv()
				en.T.Emit(h.Ev{"ev": "lk", "o": ob, "act": "open", "res": rb, "same": before == fingerprint(dir)})
				attempts++
				if rb == "ok" {
					open[ob] = true
				}
				kids[pa].send("opengo %d", g)
				ra = kids[pa].recv()
				en.T.Emit(h.Ev{"ev": "lk", "o": oa, "act": "openend", "res": ra, "same": true})
				if ra == "ok" {
					open[oa] = true
				}
			case x < 56 && open[o]:
				kids[p].send("work %d %d", g, s)
				res := kids[p].recv()
				en.T.Emit(h.Ev{"ev": "lk", "o": o, "act": "work", "res": res, "same": true})
				// and right away an attempt by another process: the directory is still in use
				p2 := (p + 1 + r.Intn(len(kids)-1)) % len(kids)
				o2 := (p2+1)*10 + g
				if !open[o2] {
					before := fingerprint(dir)
					kids[p2].send("open %d %s", g, dir)
					res2 := kids[p2].recv()
					en.T.Emit(h.Ev{"ev": "lk", "o": o2, "act": "open", "res": res2, "same": before == fingerprint(dir)})
					attempts++
					if res2 == "ok" {
						open[o2] = true
					}
				}
			case x < 62 && open[o]:
				// an Open from another process while this opener is in the middle of its Close (parked at the close
				// of its first data file): the database is open until Close returns
				kids[p].send("closepark %d", g)
				res := kids[p].recv()
				if res != "parked" {
					en.T.Emit(h.Ev{"ev": "lk", "o": o, "act": "close", "res": strings.TrimPrefix(res, "done:"), "same": true})
					delete(open, o)
					break
				}
				en.T.Emit(h.Ev{"ev": "lk", "o": o, "act": "closebegin", "res": "parked", "same": true})
				p2 := (p + 1 + r.Intn(len(kids)-1)) % len(kids)
				o2 := (p2+1)*10 + g
				if !open[o2] {
					before := fingerprint(dir)
					kids[p2].send("open %d %s", g, dir)
					res2 := kids[p2].recv()
					en.T.Emit(h.Ev{"ev": "lk", "o": o2, "act": "open", "res": res2, "same": before == fingerprint(dir)})
					attempts++
					if res2 == "ok" {
						open[o2] = true
					}
				}
				kids[p].send("closego %d", g)
				res = kids[p].recv()
				en.T.Emit(h.Ev{"ev": "lk", "o": o, "act": "close", "res": res, "same": true})
				delete(open, o)
			case x < 75 && open[o]:
				kids[p].send("close %d", g)
				res := kids[p].recv()
				en.T.Emit(h.Ev{"ev": "lk", "o": o, "act": "close", "res": res, "same": true})
				delete(open, o)
				closedOnce[o] = res == "ok"
			case x < 88 && len(open) == 0 && !fresh && len(orig) > 20:
				// damage / repair the directory while nobody has it open; the damage makes Open fail in one of
				// its three loading phases (DirLock.tla): listing the names, opening the files, reading the records
				corrupt = !corrupt
				stray := filepath.Join(dir, "backup.data")    // a data-file suffix without a numeric id
				asDir := filepath.Join(dir, "000000099.data") // a data file that cannot be opened (it is a directory)
				os.Remove(stray)
				os.Remove(asDir)
				kind := "no"
				if corrupt {
					kind = []string{"index", "names", "files"}[nkind%3]
					nkind++
					switch kind {
					case "index":
						// (a finished merge left by the holder's work would replace the damaged file at the next
						// Open: it is discarded first; the oldest data file as it is now gets one byte flipped)
						os.RemoveAll(h.MergePath(dir))
						dmgFile, dmgOrig = "", nil
						if ids := h.DataFileIDs(dir); len(ids) > 0 {
							dmgFile = filepath.Join(dir, fmt.Sprintf("%09d.data", ids[0]))
							dmgOrig, _ = os.ReadFile(dmgFile)
						}
						if len(dmgOrig) > 20 {
							b := append([]byte(nil), dmgOrig...)
							b[10] ^= 0x55
							os.WriteFile(dmgFile, b, 0644)
						} else {
							os.WriteFile(stray, []byte("x"), 0644) // nothing to flip: damage the names instead
							kind = "names"
						}
					case "names":
						os.WriteFile(stray, []byte("x"), 0644)
					case "files":
						os.Mkdir(asDir, 0755)
					}
				} else if dmgFile != "" && dmgOrig != nil {
					os.WriteFile(dmgFile, dmgOrig, 0644) // repaired: exactly the bytes the file had when it was damaged
					dmgFile, dmgOrig = "", nil
				}
				en.T.Emit(h.Ev{"ev": "setdir", "corrupt": corrupt, "kind": kind})
				// an Open right away (it must fail on a damaged directory and succeed on a repaired one), then one
				// by another process: a lock leaked by the failed Open of the first shows as "inuse" here
				for j := 0; j < 2; j++ {
					p2 := (p + j) % len(kids)
					o2 := (p2+1)*10 + g
					before := fingerprint(dir)
					kids[p2].send("open %d %s", g, dir)
					res := kids[p2].recv()
					en.T.Emit(h.Ev{"ev": "lk", "o": o2, "act": "open", "res": res, "same": before == fingerprint(dir)})
					attempts++
					if res == "ok" {
						open[o2] = true
						break
					}
				}
			case x < 95:
				race()
			}
		}
		for o := range open {
			kids[o/10-1].send("close %d", o%10)
			res := kids[o/10-1].recv()
			en.T.Emit(h.Ev{"ev": "lk", "o": o, "act": "close", "res": res, "same": true})
		}
		en.Drop(dir)
	}
	// fresh-directory races: the directory does not exist yet; both goroutine slots of every process open it at
	// the same instant; then every loser tries once more (must be rejected while the winner is open)
	fraces := 40 * en.Scale
	if en.Thorough() {
		fraces = 600 * en.Scale
	}
	for i := 0; i < fraces; i++ {
		dir := en.FreshDir()
		en.T.Emit(h.Ev{"ev": "reset", "corrupt": false, "fresh": true})
		at := time.Now().Add(8 * time.Millisecond).UnixNano()
		var os_ []int
		for pi := range kids {
			kids[pi].send("ropen %s %d 0 1", dir, at)
			os_ = append(os_, (pi+1)*10, (pi+1)*10+1)
		}
		var res []string
		for pi := range kids {
			res = append(res, strings.Fields(kids[pi].recv())...)
		}
		for len(res) < len(os_) {
			res = append(res, "died")
		}
		en.T.Emit(h.Ev{"ev": "race", "os": os_, "res": res})
		attempts += len(os_)
		for j, o := range os_ {
			if res[j] == "ok" {
				continue
			}
			before := fingerprint(dir)
			kids[o/10-1].send("open %d %s", o%10, dir)
			r2 := kids[o/10-1].recv()
			en.T.Emit(h.Ev{"ev": "lk", "o": o, "act": "open", "res": r2, "same": before == fingerprint(dir)})
			attempts++
			if r2 == "ok" {
				res[j] = "ok" // (so that it gets closed below)
			}
		}
		for j, o := range os_ {
			if res[j] == "ok" {
				kids[o/10-1].send("close %d", o%10)
				kids[o/10-1].recv()
			}
		}
		en.Drop(dir)
	}
	en.Summary["fresh_races"] = fraces
	en.Summary["attempts"] = attempts
	en.Summary["processes"] = len(kids)
}
