package main

import (
	"verifharness/h"
)

// Profile stat (C17): all operation kinds under tiny file-size limits; Stat,
// the engine's file list and an independent scan are logged after every step.
func init() { profiles["stat"] = profStat }

func profStat(en *Env) {
	traces := 14 * en.Scale
	ops := 45
	if en.Thorough() {
		traces = 200 * en.Scale
		ops = 70
	}
	limits := []int64{150, 300, 700, 2000, 40000, 200000}
	for t := 0; t < traces; t++ {
		cfg := h.CoverCfg(en.R, t, limits)
		same := cfg
		randomWorkload(en, cfg, 3+en.R.Intn(5), genOpts{batches: true, merges: true, restarts: true, backups: t%2 == 1, ops: ops, prof: "stat"},
			func() h.Cfg { return same })
	}
	en.Summary["traces"] = traces
}
