package main

import (
	"bytes"
	"fmt"
	"time"

	kv "github.com/XiXi-2024/xixi-kv"
	"verifharness/h"
)

// Profile stat (C17): all operation kinds under tiny file-size limits; Stat,
// the engine's file list and an independent scan are logged after every step.
func init() { profiles["stat"] = profStat }

func profStat(en *Env) {
	traces := 14 * en.Scale
	ops := 45
	if en.Thorough() {
		traces = 200 * en.Scale
		ops = 70
	}
	limits := []int64{150, 300, 700, 2000, 40000, 200000, 1 << 20}
	for t := 0; t < traces; t++ {
		cfg := h.CoverCfg(en.R, t, limits)
		same := cfg
		randomWorkload(en, cfg, 3+en.R.Intn(5), genOpts{batches: true, merges: true, restarts: true, backups: t%2 == 1, brim: true, ops: ops, prof: "stat"},
			func() h.Cfg { return same })
	}
	en.Summary["traces"] = traces
}

// Profile statcrash (C17): the counters after a recovery. A batch-heavy workload runs with the I/O interception on;
// while a batch is open, the directory is copied at the entry of every write to a data file and at the point
// between the flush of the staged records and the sealing record (process death: every written byte survives, so
// the log holds batch records without their sealing record). Every image is a trace of its own: Open, dump, some
// writes, Merge, restart, dump - Stat must be exact on a recovered database too, and Merge must not be refused
// because the counters drifted.
func init() { profiles["statcrash"] = profStatCrash }

func profStatCrash(en *Env) {
	traces := 6 * en.Scale
	if en.Thorough() {
		traces = 80 * en.Scale
	}
	images := 0
	for t := 0; t < traces; t++ {
		cfg := h.CoverCfg(en.R, t, []int64{300, 700, 2000, 40000})
		cfg.IO = "std" // (a crash image of the memory-mapped back-end does not open: known finding F26)
		images += statCrashTrace(en, cfg)
	}
	en.Summary["traces"] = traces
	en.Summary["images"] = images
}

func statCrashTrace(en *Env, cfg h.Cfg) int {
	r := en.R
	nkeys := 3 + r.Intn(4)
	dir := en.FreshDir()
	defer en.Drop(dir)
	u := h.PickKeys(r, nkeys, 5+r.Intn(8))
	vs := h.NewValues()
	e := h.NewEng(dir, en.Work+"/scratch", cfg, u, vs, en.T)
	en.T.Emit(h.Ev{"ev": "reset", "n": nkeys, "seed": en.Seed, "prof": "statcrash"})
	if e.Open(cfg) != "ok" {
		return 0
	}
	var imgs []string
	inBatch := false
	maxImgs := 8
	h.SetIOHandler(func(ev h.IOEv) {
		if !inBatch || len(imgs) >= maxImgs || ev.Phase != 0 {
			return
		}
		ref := h.RefOf(ev.Path, dir)
		if (ev.Kind == "write" && ref.D == 0 && ref.X == "data") || (ev.Kind == "point" && ev.Path == "commit.flushed") {
			img := en.FreshDir()
			h.WithoutCapture(func() {
				if h.CopyImage(dir, img, nil, nil) == nil {
					imgs = append(imgs, img)
				}
			})
		}
	})
	val := func(big bool) int {
		n := 1 + r.Intn(60)
		if big {
			n = int(cfg.Limit)/3 + r.Intn(int(cfg.Limit)/3+1)
			if n > 60000 {
				n = 60000
			}
		}
		id, _ := vs.New(n)
		return id
	}
	for i := 0; i < 10 && !e.Dead; i++ {
		switch r.Intn(4) {
		case 0:
			e.Delete(1 + r.Intn(nkeys))
		case 1, 2:
			e.Put(1+r.Intn(nkeys), val(false))
		default:
			// a batch, every other one larger than the file-size limit (flushed in pieces before Commit)
			big := r.Intn(2) == 0
			e.NewBatch(r.Intn(3) == 0)
			inBatch = true
			for j := 2 + r.Intn(5); j > 0 && !e.Dead; j-- {
				if r.Intn(4) == 0 {
					e.BDelete(1 + r.Intn(nkeys))
				} else {
					e.BPut(1+r.Intn(nkeys), val(big))
				}
			}
			if !e.Dead {
				e.Commit()
			}
			inBatch = false
		}
		e.Dump()
	}
	h.SetIOHandler(nil)
	if !e.Dead && e.DB != nil {
		// Stat is one report: called while another goroutine commits a batch of new keys it describes the database
		// before that commit or after it, not the key count of one and the sizes of the other
		h.WithoutCapture(func() {
			db := e.DB
			type snap struct{ keys, files, live int64 }
			of := func(st *kv.Stat) snap {
				return snap{int64(st.KeyNum), int64(st.DataFileNum), st.DiskSize - st.ReclaimableSize}
			}
			s0 := of(db.Stat())
			staged, goOn, committed := make(chan struct{}), make(chan struct{}), make(chan error, 1)
			go func() {
				b := db.NewBatch(kv.BatchOptions{})
				for i := 0; i < 20; i++ {
					b.Put([]byte(fmt.Sprintf("\x00statsnap-%02d", i)), bytes.Repeat([]byte{byte(i)}, 40))
				}
				close(staged)
				<-goOn
				committed <- b.Commit()
			}()
			<-staged
			got := make(chan snap, 1)
			go func() { got <- of(db.Stat()) }()
			time.Sleep(20 * time.Millisecond) // (Stat is waiting for the batch's lock by now - or not yet: either is a legal schedule)
			close(goOn)
			cerr := <-committed
			var mid snap
			select {
			case mid = <-got:
			case <-h.After(h.CallTimeout):
				en.T.Emit(h.Ev{"ev": "note", "check": "statsnap", "ok": false, "why": "Stat did not return"})
				return
			}
			s1 := of(db.Stat())
			en.T.Emit(h.Ev{"ev": "note", "check": "statsnap", "ok": cerr != nil || mid == s0 || mid == s1,
				"before": []int64{s0.keys, s0.files, s0.live}, "got": []int64{mid.keys, mid.files, mid.live}, "after": []int64{s1.keys, s1.files, s1.live}})
		})
		h.WithoutCapture(func() { e.DB.Close() })
	}
	for _, img := range imgs {
		e2 := h.NewEng(img, en.Work+"/scratch", cfg, u, vs, en.T)
		en.T.Emit(h.Ev{"ev": "reset", "n": nkeys, "seed": en.Seed, "prof": "statcrash-image"})
		if e2.Open(cfg) == "ok" {
			e2.Dump()
			e2.Put(1+r.Intn(nkeys), val(false))
			e2.Delete(1 + r.Intn(nkeys))
			e2.Dump()
			e2.Merge()
			e2.Dump()
			if !e2.Dead && e2.Close() == "ok" && e2.Open(cfg) == "ok" {
				e2.Dump()
			}
			if !e2.Dead && e2.DB != nil {
				h.WithoutCapture(func() { e2.DB.Close() })
			}
		}
		en.Drop(img)
		en.Drop(h.MergePath(img))
	}
	return len(imgs)
}
