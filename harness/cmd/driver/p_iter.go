package main

import (
	"bytes"
	"fmt"
	"math/rand"

	kv "github.com/XiXi-2024/xixi-kv"
	"github.com/cespare/xxhash"
	"verifharness/h"
)

// Profile iter (C10): key universes chosen (by computing the engine's shard
// function xxhash & (cap-1)) to realise particular shard layouts; seeded
// *legal* call sequences on several live iterators (several Seeks in a row,
// Seek after Next, Rewind after exhaustion, fresh iterator used without
// Rewind), both directions, prefixes, all index types and shard counts, with
// writes, overwrites and deletes interleaved after creation. Logged per
// call: Valid, key rank, value identity.
func init() { profiles["iter"] = profIter }

func shardOf(key []byte, shards int) int {
	capn := 1
	for capn < shards {
		capn <<= 1
	}
	if capn > 1024 {
		capn = 1024
	}
	return int(xxhash.Sum64(key) & uint64(capn-1))
}

// layoutKeys picks n keys over the given prefixes such that their shards follow the pattern.
func layoutKeys(r *rand.Rand, n, shards int, pattern string, prefixes []string) *h.Keys {
	var ks [][]byte
	seen := map[string]bool{}
	want := func(i int) int { // desired shard of the i-th key (-1: any)
		switch pattern {
		case "one":
			return 0
		case "two":
			return i % 2
		case "skew":
			if i%4 == 0 {
				return 1 % shards
			}
			return 0
		}
		return -1
	}
	for i := 0; len(ks) < n; i++ {
		for try := 0; try < 5000; try++ {
			k := []byte(fmt.Sprintf("%s%04d", prefixes[r.Intn(3)], r.Intn(10000)))
			if r.Intn(5) == 0 {
				k = append(k, byte('a'+r.Intn(26)))
			}
			if seen[string(k)] {
				continue
			}
			if w := want(len(ks)); w >= 0 && shards > 1 && shardOf(k, shards) != w%shards {
				continue
			}
			seen[string(k)] = true
			ks = append(ks, k)
			break
		}
	}
	return h.NewKeys(ks)
}

type liveIter struct {
	id     int
	it     *kv.Iterator
	rev    bool
	moved  bool
	prefix []byte
}

func profIter(en *Env) {
	traces := 30 * en.Scale
	if en.Thorough() {
		traces = 600 * en.Scale
	}
	calls := 0
	for t := 0; t < traces; t++ {
		calls += iterTrace(en, t)
	}
	en.Summary["traces"] = traces
	en.Summary["iterator_calls"] = calls
}

func iterTrace(en *Env, t int) int {
	r := en.R
	shards := []int{1, 2, 3, 16, 1024}[t%5]
	pattern := []string{"any", "one", "two", "skew"}[(t/5)%4]
	n := 6 + r.Intn(19)
	// key families: plain letters, and the ends of the byte order (prefixes ending in 0xFF have no successor of the
	// same length; 0x00 is the smallest extension)
	prefixes := [][]string{{"ka", "kb", "kc"}, {"k\xff", "k\xff\xff", "k\xfe"}, {"\xff", "\x00", "\x00\xff"}}[(t/2)%3]
	u := layoutKeys(r, n, shards, pattern, prefixes)
	n = u.N()
	cfg := h.Cfg{Index: h.IndexTypes[t%3], Shards: shards, IO: h.IOTypes[(t/3)%2], Limit: []int64{500, 40000, 1 << 20}[r.Intn(3)], Sync: "no"}
	dir := en.FreshDir()
	defer en.Drop(dir)
	vs := h.NewValues()
	e := h.NewEng(dir, en.Work+"/scratch", cfg, u, vs, en.T)
	en.T.Emit(h.Ev{"ev": "reset", "n": n, "seed": en.Seed, "prof": "iter", "shards": shards, "pattern": pattern})
	if e.Open(cfg) != "ok" {
		return 0
	}
	val := func() int { id, _ := vs.New(1 + r.Intn(60)); return id }
	for k := 1; k <= n; k++ {
		if r.Intn(5) != 0 {
			e.Put(k, val())
		}
	}
	for i := 0; i < 3; i++ {
		e.Delete(1 + r.Intn(n))
	}
	var its []*liveIter
	nextID := 1
	calls := 0
	observe := func(li *liveIter, ev h.Ev) {
		valid := li.it.Valid()
		ev["valid"] = valid
		ev["key"], ev["val"], ev["valerr"] = 0, 0, "ok"
		if valid {
			ev["key"] = u.Rank(li.it.Key())
			name := h.Guard(h.CallTimeout, func() error {
				v, err := li.it.Value()
				if err == nil {
					ev["val"] = vs.ID(v)
				}
				return err
			})
			ev["valerr"] = name
		}
		en.T.Emit(ev)
	}
	target := func(tpos int) []byte {
		if tpos <= 1 {
			k := u.Key(1) // below every key: a proper prefix of the smallest
			return k[:len(k)-1]
		}
		if tpos >= 2*n+1 {
			return append(u.Key(n), 0x00) // above every key: the immediate successor of the largest
		}
		k := u.Key(tpos / 2)
		if tpos%2 == 1 {
			k = append(k, 0x00)
		}
		return k
	}
	steps := 40
	for s := 0; s < steps && !e.Dead; s++ {
		switch c := r.Intn(100); {
		case c < 14 || len(its) == 0:
			// new iterator
			li := &liveIter{id: nextID, rev: r.Intn(2) == 0}
			nextID++
			switch r.Intn(6) {
			case 0:
				li.prefix = []byte(prefixes[1])
			case 1:
				li.prefix = []byte(prefixes[0])
			case 2:
				li.prefix = u.Key(1 + r.Intn(n))[:len(prefixes[2])+2]
			case 3:
				li.prefix = u.Key(1 + r.Intn(n)) // a whole key (it may also be a proper prefix of a longer key)
			case 4:
				li.prefix = append(u.Key(1+r.Intn(n)), 'z') // longer than the key it extends: usually matches nothing
			}
			match := []int{}
			for k := 1; k <= n; k++ {
				if bytes.HasPrefix(u.Key(k), li.prefix) {
					match = append(match, k)
				}
			}
			var name string
			h.WithoutCapture(func() {
				name = h.Guard(h.CallTimeout, func() error {
					li.it = e.DB.NewIterator(kv.IteratorOptions{Prefix: li.prefix, Reverse: li.rev})
					return nil
				})
			})
			if name != "ok" {
				e.Dead = true
				en.T.Emit(h.Ev{"ev": "note", "check": "iter", "ok": false, "what": "NewIterator " + name})
				break
			}
			its = append(its, li)
			observe(li, h.Ev{"ev": "inew", "id": li.id, "rev": li.rev, "match": match})
		case c < 30:
			// writes after creation do not disturb live iterators
			k := 1 + r.Intn(n)
			if r.Intn(3) == 0 {
				e.Delete(k)
			} else {
				e.Put(k, val())
			}
		case c < 34 && len(its) > 1:
			i := r.Intn(len(its))
			its[i].it.Close()
			en.T.Emit(h.Ev{"ev": "iclose", "id": its[i].id})
			its = append(its[:i], its[i+1:]...)
		default:
			li := its[r.Intn(len(its))]
			ev := h.Ev{"ev": "icall", "id": li.id, "t": 0}
			name := "ok"
			switch x := r.Intn(10); {
			case x < 2:
				ev["op"] = "Rewind"
				name = h.Guard(h.CallTimeout, func() error { li.it.Rewind(); return nil })
				li.moved = false
			case x < 6:
				ev["op"] = "Next"
				name = h.Guard(h.CallTimeout, func() error { li.it.Next(); return nil })
				li.moved = true
			default:
				// a legal Seek: anywhere on a fresh / rewound iterator, otherwise not behind the cursor
				var tpos int
				if !li.moved {
					tpos = r.Intn(2*n + 2)
				} else if li.it.Valid() {
					cur := 2 * u.Rank(li.it.Key())
					if !li.rev {
						tpos = cur - 1 + r.Intn(2*n+2-cur+1)
						if r.Intn(3) == 0 {
							tpos = cur - 1 + r.Intn(4)
						}
					} else {
						tpos = r.Intn(cur + 2)
						if r.Intn(3) == 0 {
							tpos = cur + 1 - r.Intn(4)
						}
					}
				} else if !li.rev {
					tpos = 2*n + 1
				} else {
					tpos = 0
				}
				if tpos < 0 {
					tpos = 0
				}
				if tpos > 2*n+1 {
					tpos = 2*n + 1
				}
				ev["op"], ev["t"] = "Seek", tpos
				tb := target(tpos)
				name = h.Guard(h.CallTimeout, func() error { li.it.Seek(tb); return nil })
				li.moved = true
			}
			if name != "ok" {
				e.Dead = true
				en.T.Emit(h.Ev{"ev": "note", "check": "iter", "ok": false, "what": "iterator call " + name})
				break
			}
			calls++
			observe(li, ev)
		}
		if s%10 == 9 && !e.Dead {
			e.Dump() // ListKeys and Fold visit the same ordered snapshot (checks keys / fold)
		}
	}
	for _, li := range its {
		li.it.Close()
	}
	if !e.Dead && e.DB != nil {
		h.WithoutCapture(func() { e.DB.Close() })
	}
	return calls
}
