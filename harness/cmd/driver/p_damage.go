package main

import (
	"encoding/binary"
	"io"
	"os"
	"path/filepath"
	"sort"
	"strings"

	kv "github.com/XiXi-2024/xixi-kv"
	"github.com/XiXi-2024/xixi-kv/datafile"
	"github.com/XiXi-2024/xixi-kv/fio"
	"verifharness/h"
)

// Profile damage (C12): small closed databases (several files, a multi-block
// record, a batch, a stale hint file; and a variant with a finished merge
// waiting to be adopted, so that the hint file and the marker are read). One
// file of a copy is damaged - every single-bit flip in header zones, sampled
// bits elsewhere (thorough: every bit of small files), multi-byte overwrites,
// truncation to many lengths, a block of garbage - then the copy is opened
// and every read path is used. Results are logged; EngineTrace judges them.
func init() { profiles["damage"] = profDamage }

// scanAny reads a data or hint file with the package's sequential reader.
func scanAny(e *h.Eng, dir, name string) ([]map[string]any, string) {
	recs := []map[string]any{}
	if strings.HasSuffix(name, ".data") {
		var id int
		for _, c := range name[:9] {
			id = id*10 + int(c-'0')
		}
		rs, en := e.ScanFile(dir, id, -1)
		for _, r := range rs {
			recs = append(recs, map[string]any{"k": r.K, "v": r.V, "t": r.T})
		}
		return recs, en
	}
	if !strings.HasSuffix(name, ".hint") {
		return recs, "ok"
	}
	errName := "ok"
	func() {
		defer func() {
			if r := recover(); r != nil {
				errName = "panic"
			}
		}()
		tmp, _ := os.MkdirTemp(e.Scratch, "hs")
		defer os.RemoveAll(tmp)
		b, _ := os.ReadFile(filepath.Join(dir, name))
		os.WriteFile(datafile.GetFileName(tmp, 0, datafile.HintFileSuffix), b, 0644)
		hf, err := datafile.OpenFile(tmp, 0, datafile.HintFileSuffix, fio.StandardFIO)
		if err != nil {
			errName = "err:" + err.Error()
			return
		}
		defer hf.Close()
		rd := hf.NewReader()
		for {
			key, pos, err := rd.NextHintRecord()
			if err != nil {
				if err != io.EOF {
					errName = h.ErrName(err)
				}
				return
			}
			// identity of a hint entry: key rank, offset, 100 + file id
			recs = append(recs, map[string]any{"k": e.U.Rank(key), "v": int(pos.Offset) + 40000*int(pos.BlockID%50), "t": 100 + int(pos.Fid)})
		}
	}()
	return recs, errName
}

type target struct {
	dir  string // "data" | "merge"
	name string
}

func profDamage(en *Env) {
	bases := 3 * en.Scale
	if en.Thorough() {
		bases = 8 * en.Scale
	}
	trials := 0
	for b := 0; b < bases; b++ {
		trials += damageBase(en, b)
	}
	live := 0
	lb := 4 * en.Scale
	if en.Thorough() {
		lb = 24 * en.Scale
	}
	for b := 0; b < lb; b++ {
		live += liveDamage(en, b)
	}
	en.Summary["bases"] = bases
	en.Summary["trials"] = trials
	en.Summary["live_trials"] = live
}

// liveDamage damages a file of an *open* database behind the engine's back (cut to many lengths, bytes
// overwritten, single bits flipped), reads every key - twice, in orders that alternate between files whose
// records sit at the same offsets (same-sized records: whatever buffer the engine reuses holds a well-formed
// block of another file) - runs Fold, and restores the file before the next trial.
func liveDamage(en *Env, b int) int {
	r := en.R
	perFile := 3 + r.Intn(3)
	nfiles := 3
	nkeys := perFile * nfiles
	dir := en.FreshDir()
	defer en.Drop(dir)
	u := h.SimpleKeys(nkeys, 6)
	vs := h.NewValues()
	vlen := 40 + r.Intn(200)
	multi := b%4 == 3
	if multi {
		// records of two or three blocks (First / Middle / Last chunks): the cuts then include every block boundary
		// inside a record and its neighbours
		perFile = 2
		nkeys = perFile * nfiles
		u = h.SimpleKeys(nkeys, 6)
		vlen = h.BlockSize + 200 + r.Intn(h.BlockSize+h.BlockSize/2)
	}
	recLen := h.RecLen(6, vlen)
	cfg := h.Cfg{Index: h.IndexTypes[b%3], Shards: 4, IO: "std", Limit: int64(perFile*recLen + recLen/2), Sync: "no"}
	if b%3 == 2 {
		cfg.IO = "mmap" // no cuts there: shrinking a file under a live mapping is a SIGBUS by design of the OS
	}
	e := h.NewEng(dir, en.Work+"/scratch", cfg, u, vs, en.T)
	en.T.Emit(h.Ev{"ev": "reset", "n": nkeys, "seed": en.Seed, "prof": "ldamage"})
	if e.Open(cfg) != "ok" {
		return 0
	}
	defer func() {
		if !e.Dead && e.DB != nil {
			h.WithoutCapture(func() { e.DB.Close() })
		}
	}()
	for k := 1; k <= nkeys && !e.Dead; k++ {
		id, _ := vs.New(vlen)
		e.Put(k, id)
	}
	if e.Dead {
		return 0
	}
	e.Dump()
	ids := h.DataFileIDs(dir)
	if len(ids) < 2 {
		return 0
	}
	trials := 0
	for _, id := range ids {
		name := filepath.Base(datafile.GetFileName(dir, uint32(id), datafile.DataFileSuffix))
		path := filepath.Join(dir, name)
		orig, err := os.ReadFile(path)
		if err != nil {
			continue
		}
		logical := len(orig)
		if cfg.IO == "mmap" {
			// the mapped file is extended; the records end where the scan ends
			logical = 0
			if rs, _ := e.ScanFile(dir, id, -1); len(rs) > 0 {
				lr := rs[len(rs)-1]
				logical = lr.B*h.BlockSize + lr.O + lr.S
			}
		}
		if logical == 0 {
			continue
		}
		type dmg struct {
			kind          string
			off, bit, cut int
			data          []byte
		}
		var ds []dmg
		if cfg.IO == "std" {
			step := 40
			if en.Thorough() {
				step = 9
			}
			if multi {
				step *= 200
			}
			for c := 0; c <= logical; c += 1 + r.Intn(step) {
				ds = append(ds, dmg{kind: "trunc", cut: c})
			}
			for c := h.BlockSize; c < logical; c += h.BlockSize { // block boundaries and their neighbours
				for _, d := range []int{-8, -7, -1, 0, 1, 7} {
					if c+d < logical {
						ds = append(ds, dmg{kind: "trunc", cut: c + d})
					}
				}
			}
			for i := 0; i*recLen <= logical; i++ { // record boundaries and their neighbours
				for _, d := range []int{-1, 0, 1, 7} {
					if c := i*recLen + d; c >= 0 && c < logical {
						ds = append(ds, dmg{kind: "trunc", cut: c})
					}
				}
			}
		}
		nflip := 12
		if en.Thorough() {
			nflip = 60
		}
		for i := 0; i < nflip; i++ {
			ds = append(ds, dmg{kind: "flip", off: r.Intn(logical), bit: r.Intn(8)})
		}
		for i := 0; i < nflip/4; i++ {
			bs := make([]byte, 2+r.Intn(12))
			r.Read(bs)
			ds = append(ds, dmg{kind: "bytes", off: r.Intn(logical), data: bs})
		}
		for _, d := range ds {
			// reads before the damage leave the engine's buffers holding blocks of the other files
			for i := 0; i < 2; i++ {
				k := 1 + r.Intn(nkeys)
				h.Guard(h.CallTimeout, func() error { _, err := e.DB.Get(u.Key(k)); return err })
			}
			f, err := os.OpenFile(path, os.O_RDWR, 0644)
			if err != nil {
				break
			}
			switch d.kind {
			case "trunc":
				f.Truncate(int64(d.cut))
			case "flip":
				f.WriteAt([]byte{orig[d.off] ^ 1<<uint(d.bit)}, int64(d.off))
			case "bytes":
				n := len(d.data)
				if d.off+n > logical {
					n = logical - d.off
				}
				f.WriteAt(d.data[:n], int64(d.off))
			}
			f.Close()
			gets := []map[string]any{}
			get := func(k int) {
				var bts []byte
				name := h.Guard(h.CallTimeout, func() error {
					var err error
					bts, err = e.DB.Get(u.Key(k))
					return err
				})
				v := h.VErr
				switch name {
				case "ok":
					v = vs.ID(bts)
				case "notfound":
					v = h.VNil
				}
				gets = append(gets, map[string]any{"k": k, "v": v, "err": name})
				if name == "panic" || name == "stuck" {
					e.Dead = true
				}
			}
			// order 1: the i-th record of every file in turn; order 2: random
			for i := 0; i < perFile+1 && !e.Dead; i++ {
				for fI := 0; fI <= nfiles && !e.Dead; fI++ {
					if k := fI*perFile + i + 1; k <= nkeys {
						get(k)
					}
				}
			}
			for i := 0; i < nkeys && !e.Dead; i++ {
				get(1 + r.Intn(nkeys))
			}
			fk, fv := []int{}, []int{}
			folderr := "ok"
			if !e.Dead {
				folderr = h.Guard(h.CallTimeout, func() error {
					return e.DB.Fold(func(k, v []byte) bool {
						fk = append(fk, u.Rank(k))
						fv = append(fv, vs.ID(v))
						return true
					})
				})
			}
			// restore the file (same inode: the engine keeps its descriptor / mapping)
			if f, err := os.OpenFile(path, os.O_RDWR, 0644); err == nil {
				f.WriteAt(orig, 0)
				f.Truncate(int64(len(orig)))
				f.Close()
			}
			en.T.Emit(h.Ev{"ev": "ldamage", "kind": d.kind, "file": name, "off": d.off, "bit": d.bit, "cut": d.cut, "io": cfg.IO,
				"gets": gets, "fk": fk, "fv": fv, "folderr": folderr})
			trials++
			if folderr == "panic" || folderr == "stuck" {
				e.Dead = true
			}
			if e.Dead {
				h.ExitIfStuck("stuck", en.T)
				return trials
			}
		}
	}
	return trials
}

func damageBase(en *Env, b int) int {
	r := en.R
	nkeys := 4 + r.Intn(3)
	dir := en.FreshDir()
	defer en.Drop(dir)
	u := h.SimpleKeys(nkeys, 5+r.Intn(6))
	vs := h.NewValues()
	cfg := h.Cfg{Index: h.IndexTypes[b%3], Shards: 4, IO: "std", Limit: 700, Sync: "no"}
	pendingMerge := b%3 != 0 // (Merge visits the older files in the iteration order of a Go map: two bases, two layouts)
	multiBlock := true
	e := h.NewEng(dir, en.Work+"/scratch", cfg, u, vs, en.T)
	en.T.Emit(h.Ev{"ev": "reset", "n": nkeys, "seed": en.Seed, "prof": "damage"})
	if e.Open(cfg) != "ok" {
		return 0
	}
	val := func(n int) int { id, _ := vs.New(n); return id }
	for i := 0; i < 10; i++ {
		e.Put(1+r.Intn(nkeys), val(5+r.Intn(120)))
	}
	e.Delete(1 + r.Intn(nkeys))
	e.NewBatch(false)
	e.BPut(1, val(30))
	e.BPut(2, val(90))
	e.BDelete(3)
	e.Commit()
	if multiBlock {
		// three blocks or more: a Middle chunk has the largest length the format can hold (32761), so that
		// a flipped length bit produces the largest values a length field can take
		e.Put(nkeys, val(2*h.BlockSize+700+r.Intn(300)))
	}
	e.Merge()
	if e.Close() != "ok" || e.Open(cfg) != "ok" { // adopts: a hint file is now in the data directory
		return 0
	}
	for i := 0; i < 6; i++ {
		e.Put(1+r.Intn(nkeys), val(5+r.Intn(200)))
	}
	e.Put(0+1, val(0))
	if pendingMerge {
		// the multi-block record is live at this merge: its rewritten copy lies in a file of the merge directory
		// that the adopting Open indexes through the hint file only (it is not scanned)
		e.Put(nkeys, val(2*h.BlockSize+700+r.Intn(300)))
		for i := 0; i < 4; i++ { // later records of other keys: the rewritten multi-block record is then not in the last file
			e.Put(1+r.Intn(nkeys-1), val(150+r.Intn(200)))
		}
		e.Merge() // finished, not adopted: the next Open reads marker and hint
		e.Put(2, val(17))
	}
	if e.Dead || e.Close() != "ok" {
		return 0
	}
	mdir := h.MergePath(dir)
	// what every file holds before damage
	var files []map[string]any
	var targets []target
	add := func(which, d string) {
		names, _ := h.ListDir(d)
		for _, nme := range names {
			recs, _ := scanAny(e, d, nme)
			files = append(files, map[string]any{"name": which + "/" + nme, "recs": recs})
			targets = append(targets, target{which, nme})
		}
	}
	add("data", dir)
	if pendingMerge {
		add("merge", mdir)
	}
	en.T.Emit(h.Ev{"ev": "dbase", "files": files})
	// the newest data file and where its final record starts (mechanics: classification of the damaged byte)
	lastData := ""
	lastRecStart := map[string]int{}
	if ids := h.DataFileIDs(dir); len(ids) > 0 {
		id := ids[len(ids)-1]
		lastData = filepath.Base(datafile.GetFileName(dir, uint32(id), datafile.DataFileSuffix))
		if rs, _ := e.ScanFile(dir, id, -1); len(rs) > 0 {
			lr := rs[len(rs)-1]
			lastRecStart[lastData] = lr.B*h.BlockSize + lr.O
		}
	}
	trials := 0
	work := en.FreshDir()
	defer en.Drop(work)
	for _, tg := range targets {
		src := dir
		if tg.dir == "merge" {
			src = mdir
		}
		orig, err := os.ReadFile(filepath.Join(src, tg.name))
		if err != nil {
			continue
		}
		// header zones: the first 40 bytes of every record (chunk + record header, key) and of every block
		zone := map[int]bool{}
		if strings.HasSuffix(tg.name, ".data") {
			var id int
			for _, c := range tg.name[:9] {
				id = id*10 + int(c-'0')
			}
			rs, _ := e.ScanFile(src, id, -1)
			for _, rc := range rs {
				st := rc.B*h.BlockSize + rc.O
				for i := st; i < st+40 && i < len(orig); i++ {
					zone[i] = true
				}
			}
		} else {
			for i := 0; i < len(orig) && i < 4096; i++ {
				zone[i] = true
			}
		}
		for blk := 0; blk*h.BlockSize < len(orig); blk++ {
			for i := blk * h.BlockSize; i < blk*h.BlockSize+16 && i < len(orig); i++ {
				zone[i] = true
			}
		}
		type dmg struct {
			kind string
			off  int
			bit  int
			data []byte
			cut  int
		}
		var ds []dmg
		small := len(orig) <= 3000
		for off := 0; off < len(orig); off++ {
			switch {
			case zone[off] || (en.Thorough() && small):
				for bit := 0; bit < 8; bit++ {
					ds = append(ds, dmg{kind: "flip", off: off, bit: bit})
				}
			case small || off%37 == 0 || (en.Thorough() && off%5 == 0):
				ds = append(ds, dmg{kind: "flip", off: off, bit: r.Intn(8)})
			}
		}
		// runs of zero bytes (a lost sector, a never-written page) that begin at a record start or at a block start
		starts := []int{}
		if strings.HasSuffix(tg.name, ".data") {
			var id int
			for _, c := range tg.name[:9] {
				id = id*10 + int(c-'0')
			}
			rs, _ := e.ScanFile(src, id, -1)
			for _, rc := range rs {
				starts = append(starts, rc.B*h.BlockSize+rc.O)
			}
		}
		for blk := 1; blk*h.BlockSize < len(orig); blk++ {
			starts = append(starts, blk*h.BlockSize)
		}
		for _, st := range starts {
			for _, ln := range []int{7, 16, 64, h.BlockSize - st%h.BlockSize} {
				if st+ln <= len(orig) || ln > 64 {
					ds = append(ds, dmg{kind: "zeros", off: st, data: make([]byte, min(ln, len(orig)-st))})
				}
			}
		}
		if strings.HasSuffix(tg.name, ".hint") {
			// a hint file cut exactly between two of its records (chunks): nothing in the file tells that entries are
			// missing, and nothing needs to - every data file is intact, so the cut must be harmless (or reported)
			var cuts []int
			for off := 0; off+7 <= len(orig); {
				if h.BlockSize-off%h.BlockSize < 7 { // (a block tail too short for a chunk header is padding)
					off += h.BlockSize - off%h.BlockSize
					continue
				}
				l := int(binary.LittleEndian.Uint16(orig[off+4 : off+6]))
				if l == 0 && orig[off+6] == 0 {
					break
				}
				off += 7 + l
				if off < len(orig) {
					cuts = append(cuts, off)
				}
			}
			step := 1
			if len(cuts) > 24 {
				step = len(cuts) / 24
			}
			for i := 0; i < len(cuts); i += step {
				ds = append(ds, dmg{kind: "trunc", cut: cuts[i]})
			}
		}
		nx := 12
		if en.Thorough() {
			nx = 60
		}
		for i := 0; i < nx && len(orig) > 0; i++ {
			n := 2 + r.Intn(12)
			bs := make([]byte, n)
			r.Read(bs)
			ds = append(ds, dmg{kind: "bytes", off: r.Intn(len(orig)), data: bs})
			ds = append(ds, dmg{kind: "trunc", cut: r.Intn(len(orig))})
		}
		if len(orig) <= 600 || en.Thorough() && small {
			for c := 0; c < len(orig); c++ {
				ds = append(ds, dmg{kind: "trunc", cut: c})
			}
		}
		if len(orig) > 0 {
			g := make([]byte, h.BlockSize)
			r.Read(g)
			ds = append(ds, dmg{kind: "garbage", off: 0, data: g})
			if len(orig) > h.BlockSize {
				ds = append(ds, dmg{kind: "garbage", off: h.BlockSize, data: g})
				for c := h.BlockSize; c < len(orig); c += h.BlockSize { // every block boundary and its neighbours
					for _, dd := range []int{-8, -7, -1, 0, 1, 6, 7, 8} {
						if c+dd < len(orig) {
							ds = append(ds, dmg{kind: "trunc", cut: c + dd})
						}
					}
				}
			}
		}
		for _, d := range ds {
			os.RemoveAll(work)
			os.RemoveAll(h.MergePath(work))
			h.CopyImage(dir, work, nil, nil)
			if pendingMerge {
				h.CopyImage(mdir, h.MergePath(work), nil, nil)
			}
			tdir := work
			if tg.dir == "merge" {
				tdir = h.MergePath(work)
			}
			buf := append([]byte(nil), orig...)
			switch d.kind {
			case "flip":
				buf[d.off] ^= 1 << uint(d.bit)
			case "bytes", "garbage", "zeros":
				for i, x := range d.data {
					if d.off+i < len(buf) {
						buf[d.off+i] = x
					}
				}
			case "trunc":
				buf = buf[:d.cut]
			}
			os.WriteFile(filepath.Join(tdir, tg.name), buf, 0644)
			ev := h.Ev{"ev": "damage", "kind": d.kind, "file": tg.dir + "/" + tg.name, "off": d.off, "bit": d.bit, "cut": d.cut,
				"tail": tg.dir == "data" && tg.name == lastData && d.off >= lastRecStart[tg.name], "hint": strings.HasSuffix(tg.name, ".hint")}
			// the sequential reader over the damaged file itself
			sc, scerr := scanAny(e, tdir, tg.name)
			ev["scan"], ev["scanerr"] = sc, scerr
			vals := make([]int, nkeys)
			geterrs := make([]string, nkeys)
			fk, fv := []int{}, []int{}
			folderr := "ok"
			var db *kv.DB
			open := h.Guard(h.CallTimeout, func() error {
				var err error
				db, err = kv.Open(cfg.Options(work))
				return err
			})
			if open == "ok" {
				for k := 1; k <= nkeys; k++ {
					key := u.Key(k)
					var bts []byte
					name := h.Guard(h.CallTimeout, func() error {
						var err error
						bts, err = db.Get(key)
						return err
					})
					geterrs[k-1] = name
					switch name {
					case "ok":
						vals[k-1] = vs.ID(bts)
					case "notfound":
						vals[k-1] = h.VNil
					default:
						vals[k-1] = h.VErr
					}
				}
				folderr = h.Guard(h.CallTimeout, func() error {
					return db.Fold(func(k, v []byte) bool {
						fk = append(fk, u.Rank(k))
						fv = append(fv, vs.ID(v))
						return true
					})
				})
				h.Guard(h.CallTimeout, func() error { return db.Close() })
			} else {
				for k := range geterrs {
					geterrs[k] = "ok"
				}
			}
			ev["open"], ev["vals"], ev["geterrs"], ev["fk"], ev["fv"], ev["folderr"] = open, vals, geterrs, fk, fv, folderr
			en.T.Emit(ev)
			h.ExitIfStuck(open, en.T)
			trials++
		}
	}
	sort.Strings(nil)
	return trials
}
