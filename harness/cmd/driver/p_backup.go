package main

import (
	"os"
	"path/filepath"
	"sync"

	kv "github.com/XiXi-2024/xixi-kv"
	"verifharness/h"
)

// Profile backup (C20): histories with rotated files, batches and adopted
// merges under both I/O types; Backup at seeded points during continued
// writing; the copy is opened while the source stays open (so a copied lock
// would be noticed), dumped and closed; the source keeps writing (including a
// multi-block Put right after the backup), is restarted and dumped.
func init() { profiles["backup"] = profBackup }

func profBackup(en *Env) {
	traces := 10 * en.Scale
	if en.Thorough() {
		traces = 150 * en.Scale
	}
	backups := 0
	for t := 0; t < traces; t++ {
		cfg := h.CoverCfg(en.R, t, []int64{300, 3000, 70000, 1 << 20})
		cfg.IO = h.IOTypes[t%2]
		// once a merge has been adopted under mmap the (never closed) hint file stays extended to 1 GiB and
		// every later backup copies it in full: keep such traces to one in four
		backups += backupTrace(en, cfg, cfg.IO == "std" || t%8 == 1)
	}
	en.Summary["traces"] = traces
	en.Summary["backups"] = backups
}

// dumpCopy opens the backup directory as an independent database and logs what it holds.
func dumpCopy(e *h.Eng, bdir string, cfg h.Cfg) {
	ev := h.Ev{"ev": "bdump"}
	n := e.U.N()
	vals := make([]int, n)
	keys := []int{}
	var db *kv.DB
	open := h.Guard(h.CallTimeout, func() error {
		var err error
		db, err = kv.Open(cfg.Options(bdir))
		return err
	})
	ev["open"] = open
	geterr := "ok"
	if open == "ok" {
		for r := 1; r <= n; r++ {
			key := e.U.Key(r)
			var b []byte
			name := h.Guard(h.CallTimeout, func() error {
				var err error
				b, err = db.Get(key)
				return err
			})
			switch name {
			case "ok":
				vals[r-1] = e.V.ID(b)
			case "notfound":
				vals[r-1] = h.VNil
			default:
				vals[r-1] = h.VErr
				geterr = name
			}
		}
		h.Guard(h.CallTimeout, func() error {
			for _, k := range db.ListKeys() {
				keys = append(keys, e.U.Rank(k))
			}
			return nil
		})
		ev["statkeys"] = db.Stat().KeyNum
		ev["close"] = h.Guard(h.CallTimeout, func() error { return db.Close() })
	} else {
		ev["statkeys"] = -1
		ev["close"] = "ok"
	}
	ev["vals"], ev["keys"], ev["geterr"] = vals, keys, geterr
	_, lerr := os.Stat(filepath.Join(bdir, ".lock"))
	names, _ := h.ListDir(bdir)
	ev["files"] = names
	ev["lockcopied"] = lerr == nil && open != "ok"
	e.T.Emit(ev)
}

func backupTrace(en *Env, cfg h.Cfg, merges bool) int {
	r := en.R
	nkeys := 3 + r.Intn(5)
	dir := en.FreshDir()
	defer en.Drop(dir)
	u := h.PickKeys(r, nkeys, 5+r.Intn(10))
	vs := h.NewValues()
	e := h.NewEng(dir, en.Work+"/scratch", cfg, u, vs, en.T)
	en.T.Emit(h.Ev{"ev": "reset", "n": nkeys, "seed": en.Seed, "prof": "backup"})
	if e.Open(cfg) != "ok" {
		return 0
	}
	val := func() int {
		id, _ := vs.New(h.PickLen(r, 0, 8, cfg.Limit) % 150000)
		return id
	}
	backups := 0
	ops := 30
	kept := "" // the directory of the latest backup, kept to be backed up into again
	reused := 0
	keep := func(d string) {
		if kept != "" && kept != d {
			en.Drop(kept)
		}
		kept = d
	}
	defer func() {
		if kept != "" {
			en.Drop(kept)
		}
	}()
	// several backups requested at the same instant (no writer is active): each copy must open to the model
	simultaneous := func() {
		const k = 3
		dirs := make([]string, k)
		names := make([]string, k)
		var wg sync.WaitGroup
		start := make(chan struct{})
		for i := 0; i < k; i++ {
			dirs[i] = en.FreshDir()
			wg.Add(1)
			go func(i int) {
				defer wg.Done()
				<-start
				names[i] = h.Guard(h.CallTimeout, func() error { return e.DB.Backup(dirs[i]) })
			}(i)
		}
		close(start)
		wg.Wait()
		for i := 0; i < k; i++ {
			e.T.Emit(h.Ev{"ev": "op", "op": "Backup", "k": 0, "v": 0, "n": 0, "a": 1, "res": 0, "err": names[i]})
			backups++
		}
		for i := 0; i < k; i++ {
			h.WithoutCapture(func() { dumpCopy(e, dirs[i], cfg) })
			en.Drop(dirs[i])
		}
		e.Dump()
	}
	for i := 0; i < ops && !e.Dead; i++ {
		if i == 5 && cfg.IO == "mmap" && !merges && e.DB != nil && e.DB.Stat().DataFileNum <= 3 {
			simultaneous() // (early, while the source is small: see the note at the end of the trace)
		}
		k := 1 + r.Intn(nkeys)
		switch c := r.Intn(100); {
		case c < 35:
			e.Put(k, val())
		case c < 45:
			e.Delete(k)
		case c < 55:
			e.NewBatch(false)
			for j := r.Intn(4); j >= 0 && !e.Dead; j-- {
				if r.Intn(3) == 0 {
					e.BDelete(1 + r.Intn(nkeys))
				} else {
					e.BPut(1+r.Intn(nkeys), val())
				}
			}
			if !e.Dead {
				e.Commit()
			}
		case c < 62 && merges:
			e.Merge()
		case c < 70:
			if e.Close() != "ok" || e.Open(cfg) != "ok" {
				return backups
			}
		default:
			bdir := en.FreshDir()
			if kept != "" && r.Intn(2) == 0 {
				// the directory of an earlier backup of this database is used again (its files were written by that
				// backup, and the source may hold fewer or shorter files by now)
				en.Drop(bdir)
				bdir = kept
				reused++
			}
			if cfg.IO == "mmap" && merges && backups >= 3 {
				e.Put(k, val())
				break
			}
			name := h.Guard(h.CallTimeout, func() error { return e.DB.Backup(bdir) })
			e.T.Emit(h.Ev{"ev": "op", "op": "Backup", "k": 0, "v": 0, "n": 0, "a": 0, "res": 0, "err": name})
			backups++
			if name == "panic" || name == "stuck" {
				e.Dead = true
				break
			}
			// the source keeps working right after the backup: a small and a multi-block Put
			if r.Intn(2) == 0 {
				id, _ := vs.New(1 + r.Intn(30))
				e.Put(k, id)
				id2, _ := vs.New(h.BlockSize + r.Intn(h.BlockSize))
				e.Put(1+r.Intn(nkeys), id2)
				// the copy must hold the state at the time of the backup: undo is not possible, so
				// dump the copy against the model *as of the backup* -> log the copy first in the other half
				keep(bdir)
			} else {
				c2 := cfg
				if r.Intn(2) == 0 {
					c2.IO = h.IOTypes[r.Intn(2)]
				}
				h.WithoutCapture(func() { dumpCopy(e, bdir, c2) })
				keep(bdir)
				id2, _ := vs.New(h.BlockSize/2 + r.Intn(h.BlockSize))
				e.Put(1+r.Intn(nkeys), id2)
			}
		}
		e.Dump()
	}
	// the same backup directory before and after the source shrank: backup, overwrite every key, delete one, Merge,
	// the adopting restart (the source now holds fewer and shorter files), backup into the same directory again
	if !e.Dead && e.DB != nil && merges && cfg.IO == "std" {
		b1 := en.FreshDir()
		for round := 0; round < 2 && !e.Dead; round++ {
			name := h.Guard(h.CallTimeout, func() error { return e.DB.Backup(b1) })
			e.T.Emit(h.Ev{"ev": "op", "op": "Backup", "k": 0, "v": 0, "n": 0, "a": 0, "res": 0, "err": name})
			backups++
			if name != "ok" {
				break
			}
			h.WithoutCapture(func() { dumpCopy(e, b1, cfg) })
			if round == 0 {
				for k := 1; k <= nkeys && !e.Dead; k++ {
					id, _ := vs.New(1 + r.Intn(40))
					e.Put(k, id)
				}
				e.Delete(1 + r.Intn(nkeys))
				if e.Merge() != "ok" || e.Dead || e.Close() != "ok" || e.Open(cfg) != "ok" {
					break
				}
				e.Dump()
			}
		}
		en.Drop(b1)
	}
	// Backup as the very first call after the restart that adopted a merge of several output files: the files
	// indexed from the hint file have not been read (or, under mmap, touched at all) when they are copied
	if !e.Dead && e.DB != nil && merges {
		c2 := cfg
		if c2.Limit > 3000 {
			c2.Limit = 3000
		}
		if e.Close() != "ok" || e.Open(c2) != "ok" {
			return backups
		}
		for k := 1; k <= nkeys && !e.Dead; k++ {
			id, _ := vs.New(700 + r.Intn(600))
			e.Put(k, id)
		}
		if !e.Dead && e.Merge() == "ok" && !e.Dead && e.Close() == "ok" && e.Open(c2) == "ok" {
			b2 := en.FreshDir()
			name := h.Guard(h.CallTimeout, func() error { return e.DB.Backup(b2) })
			e.T.Emit(h.Ev{"ev": "op", "op": "Backup", "k": 0, "v": 0, "n": 0, "a": 0, "res": 0, "err": name})
			backups++
			if name == "ok" {
				h.WithoutCapture(func() { dumpCopy(e, b2, c2) })
			}
			en.Drop(b2)
			e.Dump()
			if name == "panic" || name == "stuck" || e.Close() != "ok" || e.Open(cfg) != "ok" {
				return backups
			}
			e.Dump()
		}
	}
	// several backups requested at the same instant (no writer is active): each copy must open to the model
	// (under mmap only while the source has few files: a defective Backup may copy every file at its mapped size of
	// 512 MiB, and three such copies of many files exhaust the scratch space before anything is recorded)
	if !e.Dead && e.DB != nil && !(cfg.IO == "mmap" && (merges || e.DB.Stat().DataFileNum > 3)) {
		simultaneous()
	}
	if !e.Dead && e.DB != nil {
		if e.Close() == "ok" && e.Open(cfg) == "ok" {
			e.Dump()
			h.WithoutCapture(func() { e.DB.Close() })
		}
	}
	return backups
}
