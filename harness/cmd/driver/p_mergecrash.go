package main

import (
	"sync"
	"sync/atomic"
	"time"

	kv "github.com/XiXi-2024/xixi-kv"
	"verifharness/h"
)

// Profile mergecrash (C07): a history, then Merge and the adopting Open run
// with the interception on; images of both directories are taken at every
// file-system step (named points before remove / rename / remove-all / mkdir,
// and every I/O call on merge-directory files); every image is reopened, with
// a second crash at every step of the retry, and after one more restart.
func init() { profiles["mergecrash"] = profMergeCrash }

func profMergeCrash(en *Env) {
	traces := 4 * en.Scale
	if en.Thorough() {
		traces = 40 * en.Scale
	}
	stats := map[string]int{}
	for t := 0; t < traces; t++ {
		cfg := h.CoverCfg(en.R, t, []int64{300, 700, 3000, 40000})
		cfg.IO = "std"
		if t%8 == 7 {
			cfg.IO = "mmap" // every crash image fails to open (known finding F26)
		}
		cfg.Sync = "no"
		cfg.BPS = 0
		big := t%4 == 1
		if big {
			// keys of 9 000-40 000 bytes under the index types that keep the key slice they are given: the hint file of
			// the merge spans several blocks
			cfg.Index = []string{"btree", "skiplist"}[(t/4)%2]
			cfg.Limit = 70000
		}
		mergeCrashTrace(en, cfg, stats, big)
	}
	for t := 0; t < 2*en.Scale; t++ {
		halfBatchTrace(en, h.IndexTypes[t%3], stats)
	}
	for t := 0; t < 3*en.Scale; t++ {
		overlapTrace(en, h.IndexTypes[t%3], stats)
	}
	en.Summary["traces"] = traces
	en.Summary["stats"] = stats
}

// overlapTrace: further Merge calls while a merge is running (each must answer "in progress" and leave the running
// merge alone). The first merge is parked once its scan is over; two more calls are made - should one of them be
// admitted, it is parked at its second rewrite -; the first merge then writes its marker and returns, and the
// process "dies". The image must recover the acknowledged mapping.
func overlapTrace(en *Env, index string, stats map[string]int) {
	r := en.R
	cfg := h.Cfg{Index: index, Shards: 4, IO: "std", Limit: 300, Sync: "no"}
	nkeys := 6
	dir := en.FreshDir()
	defer en.Drop(dir)
	u := h.SimpleKeys(nkeys, 6)
	vs := h.NewValues()
	e := h.NewEng(dir, en.Work+"/scratch", cfg, u, vs, en.T)
	en.T.Emit(h.Ev{"ev": "reset", "n": nkeys, "seed": en.Seed, "prof": "overlap", "cfg": cfg.Ev()})
	c := h.NewCrasher(e, en.Work+"/img")
	c.WithMerge = true
	c.MaxImages = 0
	if e.Open(cfg) != "ok" {
		c.Stop()
		c.Flush(nil)
		return
	}
	val := func(n int) int { id, _ := vs.New(n); return id }
	for round := 0; round < 2; round++ {
		for k := 1; k <= nkeys; k++ {
			e.Put(k, val(40+r.Intn(50)))
		}
	}
	aScanned, relA := make(chan struct{}), make(chan struct{})
	cParked, relC := make(chan struct{}), make(chan struct{})
	var onceA, onceC sync.Once
	var aIsParked, lateRewrites int32
	orig := kv.VerifPoint
	kv.VerifPoint = func(name string, arg uint32) {
		switch name {
		case "merge.scanned":
			onceA.Do(func() { atomic.StoreInt32(&aIsParked, 1); close(aScanned); <-relA })
		case "merge.rewrite":
			// (the first merge is past its scan: a rewrite now belongs to a merge that should not be running)
			if atomic.LoadInt32(&aIsParked) == 1 && atomic.AddInt32(&lateRewrites, 1) == 2 {
				onceC.Do(func() { close(cParked); <-relC })
			}
		}
	}
	aDone := make(chan struct{})
	go func() {
		defer close(aDone)
		e.DB.Merge()
	}()
	select {
	case <-aScanned:
	case <-aDone:
	}
	stats["overlap_second_call_"+h.Guard(h.CallTimeout, func() error { return e.DB.Merge() })]++
	e.Put(1, val(25)) // the live set changes between the calls
	e.Delete(2)
	cDone := make(chan string, 1)
	go func() { cDone <- h.ErrName(e.DB.Merge()) }()
	select {
	case name := <-cDone:
		stats["overlap_third_call_"+name]++
		cDone <- name
	case <-cParked:
		stats["overlap_third_call_admitted"]++
	case <-h.After(5 * time.Second):
	}
	close(relA)
	<-aDone
	c.MaxImages = 10
	c.Snapshot("overlap.firstdone")
	c.MaxImages = 0
	close(relC)
	select {
	case <-cDone:
	case <-h.After(h.CallTimeout):
	}
	kv.VerifPoint = orig
	if !e.Dead && e.DB != nil {
		e.Close()
	}
	c.Stop()
	obs := c.ExploreMerge(false, stats)
	c.Flush(obs)
}

func mergeCrashTrace(en *Env, cfg h.Cfg, stats map[string]int, bigKeys bool) {
	r := en.R
	nkeys := 2 + r.Intn(4)
	dir := en.FreshDir()
	defer en.Drop(dir)
	u := h.SimpleKeys(nkeys, 5+r.Intn(6))
	if bigKeys {
		nkeys = 5 + r.Intn(2)
		u = mergeKeys(en, nkeys, true)
	}
	vs := h.NewValues()
	e := h.NewEng(dir, en.Work+"/scratch", cfg, u, vs, en.T)
	en.T.Emit(h.Ev{"ev": "reset", "n": nkeys, "seed": en.Seed, "prof": "mergecrash", "cfg": cfg.Ev()})
	c := h.NewCrasher(e, en.Work+"/img")
	c.WithMerge = true
	if !en.Thorough() {
		c.LabelCap = 3
	}
	c.MaxImages = 0 // no images while the history is built
	if e.Open(cfg) != "ok" {
		c.Stop()
		c.Flush(nil)
		return
	}
	val := func() int {
		n := 1 + r.Intn(80)
		if r.Intn(6) == 0 {
			n = int(cfg.Limit/2) + r.Intn(50)
			if n > 30000 {
				n = 2000
			}
		}
		id, _ := vs.New(n)
		return id
	}
	write := func(n int) {
		for i := 0; i < n && !e.Dead; i++ {
			k := 1 + r.Intn(nkeys)
			switch x := r.Intn(10); {
			case x < 6:
				e.Put(k, val())
			case x < 8:
				e.Delete(k)
			default:
				e.NewBatch(false)
				for j := r.Intn(3); j >= 0; j-- {
					e.BPut(1+r.Intn(nkeys), val())
				}
				e.Commit()
			}
		}
	}
	rounds := 2
	for rd := 0; rd < rounds && !e.Dead; rd++ {
		write(4 + r.Intn(14))
		if rd == 1 {
			// a finished merge that is merged over before it was adopted (left-over directory removal)
			c.MaxImages = 0
			e.Merge()
			write(2 + r.Intn(6))
		}
		if bigKeys {
			for k := 1; k <= nkeys && !e.Dead; k++ { // every long key is live at the merge
				e.Put(k, val())
			}
		}
		c.MaxImages = 150 * (rd + 1)
		e.Merge()
		write(r.Intn(3))
		if e.Dead || e.Close() != "ok" {
			break
		}
		if e.Open(cfg) != "ok" { // the adopting Open, images at every step
			break
		}
		c.MaxImages = 0
	}
	if !e.Dead && e.DB != nil {
		e.Close()
	}
	c.Stop()
	obs := c.ExploreMerge(en.Thorough(), stats)
	c.Flush(obs)
}

// halfBatchTrace: a Merge runs in the background (parked by a blocking hook right after it released the
// database lock) while a batch larger than DataFileSize flushes an intermediate piece (deleting / overwriting
// keys the merge is about to scan) and stays uncommitted; the merge then scans and finishes; the process
// "dies" before Commit. The image must recover the mapping acknowledged before the batch.
func halfBatchTrace(en *Env, index string, stats map[string]int) {
	r := en.R
	cfg := h.Cfg{Index: index, Shards: 4, IO: "std", Limit: 600, Sync: "no"}
	nkeys := 4
	dir := en.FreshDir()
	defer en.Drop(dir)
	u := h.SimpleKeys(nkeys, 6)
	vs := h.NewValues()
	e := h.NewEng(dir, en.Work+"/scratch", cfg, u, vs, en.T)
	en.T.Emit(h.Ev{"ev": "reset", "n": nkeys, "seed": en.Seed, "prof": "halfbatch", "cfg": cfg.Ev()})
	c := h.NewCrasher(e, en.Work+"/img")
	c.WithMerge = true
	c.MaxImages = 0
	if e.Open(cfg) != "ok" {
		c.Stop()
		c.Flush(nil)
		return
	}
	val := func(n int) int { id, _ := vs.New(n); return id }
	for k := 1; k <= nkeys; k++ {
		e.Put(k, val(20+r.Intn(60)))
	}
	// gates: park the merge after it released the lock, and again when it has written its marker
	started, scanned := make(chan struct{}), make(chan struct{})
	relStart, relDone := make(chan struct{}), make(chan struct{})
	var once1, once2 sync.Once
	orig := kv.VerifPoint
	kv.VerifPoint = func(name string, arg uint32) {
		switch name {
		case "merge.started":
			once1.Do(func() { close(started); <-relStart })
		case "merge.done":
			once2.Do(func() { close(scanned); <-relDone })
		}
	}
	mergeDone := make(chan struct{})
	go func() {
		defer close(mergeDone)
		e.DB.Merge()
	}()
	select {
	case <-started:
	case <-mergeDone:
	}
	// the batch: delete one key, overwrite another, then a record that forces an intermediate flush
	e.NewBatch(false)
	e.BDelete(1)
	e.BPut(2, val(30))
	e.BPut(3, val(int(cfg.Limit)+50)) // does not fit with what is staged: the staged piece is flushed first
	close(relStart)
	select {
	case <-scanned:
		stats["halfbatch_merge_marked_before_commit"]++
	case <-mergeDone:
	case <-time.After(400 * time.Millisecond):
		// the merge waits for the database lock the open batch holds (it flushes the active file before
		// writing its marker): the image then shows an unmarked merge directory
		stats["halfbatch_merge_waits_for_batch"]++
	}
	c.MaxImages = 10
	c.Snapshot("halfbatch.uncommitted")
	c.MaxImages = 0
	stats["halfbatch_images"]++
	e.Commit()
	close(relDone)
	<-mergeDone
	kv.VerifPoint = orig
	c.MaxImages = 20
	c.Snapshot("halfbatch.committed")
	c.MaxImages = 0
	if !e.Dead && e.DB != nil {
		e.Close()
	}
	c.Stop()
	obs := c.ExploreMerge(false, stats)
	c.Flush(obs)
}
