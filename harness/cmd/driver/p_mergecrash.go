package main

import (
	"verifharness/h"
)

// Profile mergecrash (C07): a history, then Merge and the adopting Open run
// with the interception on; images of both directories are taken at every
// file-system step (named points before remove / rename / remove-all / mkdir,
// and every I/O call on merge-directory files); every image is reopened, with
// a second crash at every step of the retry, and after one more restart.
func init() { profiles["mergecrash"] = profMergeCrash }

func profMergeCrash(en *Env) {
	traces := 4 * en.Scale
	if en.Thorough() {
		traces = 40 * en.Scale
	}
	stats := map[string]int{}
	for t := 0; t < traces; t++ {
		cfg := h.CoverCfg(en.R, t, []int64{300, 700, 3000, 40000})
		cfg.IO = "std"
		if t%8 == 7 {
			cfg.IO = "mmap" // every crash image fails to open (known finding F26)
		}
		cfg.Sync = "no"
		cfg.BPS = 0
		mergeCrashTrace(en, cfg, stats)
	}
	en.Summary["traces"] = traces
	en.Summary["stats"] = stats
}

func mergeCrashTrace(en *Env, cfg h.Cfg, stats map[string]int) {
	r := en.R
	nkeys := 2 + r.Intn(4)
	dir := en.FreshDir()
	defer en.Drop(dir)
	u := h.SimpleKeys(nkeys, 5+r.Intn(6))
	vs := h.NewValues()
	e := h.NewEng(dir, en.Work+"/scratch", cfg, u, vs, en.T)
	en.T.Emit(h.Ev{"ev": "reset", "n": nkeys, "seed": en.Seed, "prof": "mergecrash", "cfg": cfg.Ev()})
	c := h.NewCrasher(e, en.Work+"/img")
	c.WithMerge = true
	if !en.Thorough() {
		c.LabelCap = 3
	}
	c.MaxImages = 0 // no images while the history is built
	if e.Open(cfg) != "ok" {
		c.Stop()
		c.Flush(nil)
		return
	}
	val := func() int {
		n := 1 + r.Intn(80)
		if r.Intn(6) == 0 {
			n = int(cfg.Limit/2) + r.Intn(50)
			if n > 30000 {
				n = 2000
			}
		}
		id, _ := vs.New(n)
		return id
	}
	write := func(n int) {
		for i := 0; i < n && !e.Dead; i++ {
			k := 1 + r.Intn(nkeys)
			switch x := r.Intn(10); {
			case x < 6:
				e.Put(k, val())
			case x < 8:
				e.Delete(k)
			default:
				e.NewBatch(false)
				for j := r.Intn(3); j >= 0; j-- {
					e.BPut(1+r.Intn(nkeys), val())
				}
				e.Commit()
			}
		}
	}
	rounds := 2
	for rd := 0; rd < rounds && !e.Dead; rd++ {
		write(4 + r.Intn(14))
		if rd == 1 {
			// a finished merge that is merged over before it was adopted (left-over directory removal)
			c.MaxImages = 0
			e.Merge()
			write(2 + r.Intn(6))
		}
		c.MaxImages = 150 * (rd + 1)
		e.Merge()
		write(r.Intn(3))
		if e.Dead || e.Close() != "ok" {
			break
		}
		if e.Open(cfg) != "ok" { // the adopting Open, images at every step
			break
		}
		c.MaxImages = 0
	}
	if !e.Dead && e.DB != nil {
		e.Close()
	}
	c.Stop()
	obs := c.ExploreMerge(en.Thorough(), stats)
	c.Flush(obs)
}
