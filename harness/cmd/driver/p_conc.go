package main

import (
	"math/rand"
	"runtime"
	"sort"
	"sync"
	"sync/atomic"
	"time"

	kv "github.com/XiXi-2024/xixi-kv"
	"github.com/XiXi-2024/xixi-kv/fio"
	"verifharness/h"
)

// Profile conc (C08): (a) forced two-client schedules: client A is parked by
// a blocking hook at one of the engine's schedule points (after the log
// append / before the index update of Put and Delete, after Delete's
// existence check, inside Merge's scan loop) while client B runs a complete
// call on the same key - if the code's locks allow it; a step that does not
// happen within the gate timeout is simply not explored (time never decides
// a verdict). (b) random histories of 2..16 clients on 3 overlapping keys
// with random perturbation at the schedule points and a concurrent Merge.
// Every run records a call/return history ordered by an atomic counter and,
// at quiescence, the live value and the value after Close + Open per key.
func init() { profiles["conc"] = profConc }

type hev struct {
	seq  int64
	key  int
	call bool
	c    int
	op   string
	v    int
	err  string
	res  int
}

type recorder struct {
	mu  sync.Mutex
	seq int64
	evs []hev
}

func (r *recorder) add(e hev) {
	e.seq = atomic.AddInt64(&r.seq, 1)
	r.mu.Lock()
	r.evs = append(r.evs, e)
	r.mu.Unlock()
}

// do runs one Put/Delete/Get of client c on key (rank) k, recording call and return.
func (r *recorder) do(e *h.Eng, c int, op string, k int, vid int) {
	// every call passes its key (and value) in a buffer of its own that the caller overwrites after the return
	key := append([]byte(nil), e.U.Key(k)...)
	defer func() {
		for i := range key {
			key[i] = 0xEE
		}
	}()
	r.add(hev{key: k, call: true, c: c, op: op, v: vid})
	res := 0
	var err error
	switch op {
	case "Put":
		val := e.V.Bytes(vid)
		err = e.DB.Put(key, val)
		for i := range val {
			val[i] = 0xEE
		}
	case "Delete":
		err = e.DB.Delete(key)
	case "Get":
		var b []byte
		b, err = e.DB.Get(key)
		if err == nil {
			res = e.V.ID(b)
		}
	}
	r.add(hev{key: k, c: c, op: op, err: h.ErrName(err), res: res})
}

// flush writes the per-key histories followed by the quiescent observations.
func (r *recorder) flush(en *Env, e *h.Eng, cfg h.Cfg, label string) bool {
	n := e.U.N()
	live := make([]int, n)
	rec := make([]int, n)
	get := func(into []int) bool {
		for k := 1; k <= n; k++ {
			b, err := e.DB.Get(e.U.Key(k))
			switch h.ErrName(err) {
			case "ok":
				into[k-1] = e.V.ID(b)
			case "notfound":
				into[k-1] = h.VNil
			default:
				into[k-1] = h.VErr
			}
		}
		return true
	}
	ok := true
	name := h.Guard(h.CallTimeout, func() error { get(live); return nil })
	if name != "ok" {
		ok = false
	}
	name = h.Guard(h.CallTimeout, func() error { return e.DB.Close() })
	if name == "ok" {
		var db *kv.DB
		name = h.Guard(h.CallTimeout, func() error {
			var err error
			db, err = kv.Open(cfg.Options(e.Dir))
			return err
		})
		if name == "ok" {
			e.DB = db
			h.Guard(h.CallTimeout, func() error { get(rec); return nil })
		}
	}
	if name != "ok" {
		ok = false
		for i := range rec {
			rec[i] = h.VErr
		}
	}
	sort.Slice(r.evs, func(i, j int) bool { return r.evs[i].seq < r.evs[j].seq })
	for k := 1; k <= n; k++ {
		en.T.Emit(h.Ev{"ev": "reset", "key": k, "label": label})
		for xi, x := range r.evs {
			if x.key != k {
				continue
			}
			if x.call {
				// the outcome of the call is repeated on its call event (a join of two logged events by client and
				// order, nothing is inferred): the trace specification can then place the linearization point of a
				// Get only where the register holds what the Get returned
				xerr, xres := "none", 0
				for _, y := range r.evs[xi+1:] {
					if y.key == k && y.c == x.c && !y.call {
						xerr, xres = y.err, y.res
						break
					}
				}
				en.T.Emit(h.Ev{"ev": "call", "c": x.c, "op": x.op, "v": x.v, "xerr": xerr, "xres": xres})
			} else {
				en.T.Emit(h.Ev{"ev": "ret", "c": x.c, "op": x.op, "err": x.err, "res": x.res})
			}
		}
		en.T.Emit(h.Ev{"ev": "final", "live": live[k-1], "rec": rec[k-1]})
	}
	return ok
}

// gate parks the first goroutine arriving at point p until released.
type gate struct {
	point    string
	arrived  chan struct{}
	release  chan struct{}
	once     sync.Once
	occupied int32
}

func newGate(point string) *gate {
	return &gate{point: point, arrived: make(chan struct{}), release: make(chan struct{})}
}

func (g *gate) hook(name string) {
	if name != g.point || !atomic.CompareAndSwapInt32(&g.occupied, 0, 1) {
		return
	}
	close(g.arrived)
	<-g.release
}

func profConc(en *Env) {
	stats := map[string]int{}
	forcedRounds := 1 * en.Scale
	randomRuns := 24 * en.Scale
	if en.Thorough() {
		forcedRounds = 6 * en.Scale
		randomRuns = 300 * en.Scale
	}
	for i := 0; i < forcedRounds; i++ {
		for _, ix := range h.IndexTypes {
			forcedSchedules(en, ix, stats)
		}
	}
	for i := 0; i < randomRuns; i++ {
		randomHistory(en, i, stats)
	}
	kv.VerifPoint = nil
	en.Summary["stats"] = stats
}

func openFresh(en *Env, cfg h.Cfg, nkeys int) *h.Eng {
	dir := en.FreshDir()
	u := h.SimpleKeys(nkeys, 6)
	vs := h.NewValues()
	e := h.NewEng(dir, en.Work+"/scratch", cfg, u, vs, en.T)
	db, err := kv.Open(cfg.Options(dir))
	if err != nil {
		return nil
	}
	e.DB = db
	return e
}

// forcedSchedules: every (A's call, schedule point, B's call) combination on one key.
func forcedSchedules(en *Env, index string, stats map[string]int) {
	type scen struct {
		aop, point, bop string
		present         bool
	}
	var scens []scen
	for _, present := range []bool{true, false} {
		for _, bop := range []string{"Put", "Delete", "Get"} {
			scens = append(scens, scen{"Put", "put.appended", bop, present})
			if present {
				scens = append(scens, scen{"Delete", "delete.checked", bop, present}, scen{"Delete", "delete.appended", bop, present})
			}
		}
	}
	for _, bop := range []string{"Put", "Delete"} {
		scens = append(scens, scen{"Merge", "merge.scan", bop, true}, scen{"Merge", "merge.rewrite", bop, true})
	}
	// the I/O calls themselves are schedule points too: A parked inside its write / its fsync
	for _, bop := range []string{"Put", "Delete", "Get"} {
		scens = append(scens, scen{"Put", "io.sync", bop, true}, scen{"Delete", "io.sync", bop, true},
			scen{"Put", "io.write", bop, true}, scen{"Put", "io.sync", bop, false})
	}
	for _, sc := range scens {
		cfg := h.Cfg{Index: index, Shards: []int{1, 16}[en.R.Intn(2)], IO: h.IOTypes[en.R.Intn(2)], Limit: []int64{300, 1 << 20}[en.R.Intn(2)], Sync: "no"}
		if sc.point == "io.sync" {
			cfg.Sync = []string{"always", "threshold"}[en.R.Intn(2)]
			cfg.BPS = 1
		}
		e := openFresh(en, cfg, 2)
		if e == nil {
			continue
		}
		rec := &recorder{}
		if sc.present {
			id, _ := e.V.New(10 + en.R.Intn(30))
			rec.do(e, 9, "Put", 1, id)
			id2, _ := e.V.New(10 + en.R.Intn(30))
			rec.do(e, 9, "Put", 2, id2)
		}
		g := newGate(sc.point)
		kv.VerifPoint = func(name string, arg uint32) { g.hook(name) }
		fio.VerifIO = func(phase int, kind, name string, n int64) {
			if phase == 0 {
				g.hook("io." + kind)
			}
		}
		aVal, _ := e.V.New(20 + en.R.Intn(20)) // generated up front: the value table is not concurrency-safe
		bVal, _ := e.V.New(40 + en.R.Intn(20))
		var wg sync.WaitGroup
		aDone := make(chan struct{})
		wg.Add(1)
		go func() {
			defer wg.Done()
			defer close(aDone)
			if sc.aop == "Merge" {
				e.DB.Merge()
				return
			}
			rec.do(e, 1, sc.aop, 1, aVal)
		}()
		select {
		case <-g.arrived:
			stats["gate_reached"]++
		case <-aDone:
			stats["gate_not_reached"]++
		}
		bDone := make(chan struct{})
		wg.Add(1)
		go func() {
			defer wg.Done()
			defer close(bDone)
			rec.do(e, 2, sc.bop, 1, bVal)
		}()
		select {
		case <-bDone:
			stats["b_ran_inside_gate"]++
		case <-time.After(150 * time.Millisecond):
			stats["b_blocked_by_lock"]++ // the code's locks forbid this interleaving: not explored
		}
		g.once.Do(func() { close(g.release) })
		wg.Wait()
		kv.VerifPoint = nil
		fio.VerifIO = nil
		rec.flush(en, e, cfg, "forced:"+sc.aop+"@"+sc.point+"/"+sc.bop)
		if e.DB != nil {
			e.DB.Close()
		}
		en.Drop(e.Dir)
		stats["forced"]++
	}
}

func randomHistory(en *Env, i int, stats map[string]int) {
	r := en.R
	nclients := []int{2, 3, 4, 8}[i%4]
	ops := 12
	if en.Thorough() && i%5 == 4 {
		nclients = 16
		ops = 10
	}
	cfg := h.Cfg{Index: h.IndexTypes[i%3], Shards: []int{1, 2, 16}[r.Intn(3)], IO: h.IOTypes[(i/3)%2], Limit: []int64{300, 2000, 1 << 20}[r.Intn(3)], Sync: h.SyncKinds[(i/2)%3], BPS: 64}
	// every fourth history is read-heavy over values of 20-50 KB in one large file: the keys then live in
	// different 32 KiB blocks of the same file and concurrent readers fetch different blocks at the same time
	readHeavy := i%4 == 1
	nk := 3
	if readHeavy {
		nk = 6
		cfg.Limit = 1 << 22
	}
	e := openFresh(en, cfg, nk)
	if e == nil {
		return
	}
	rec := &recorder{}
	if readHeavy {
		for k := 1; k <= nk; k++ {
			id, _ := e.V.New(20000 + r.Intn(30000))
			rec.do(e, 99, "Put", k, id)
		}
	}
	// random perturbation at the schedule points (PCT style): yield or sleep a little
	var pr sync.Mutex
	prnd := rand.New(rand.NewSource(r.Int63()))
	kv.VerifPoint = func(name string, arg uint32) {
		pr.Lock()
		x := prnd.Intn(10)
		pr.Unlock()
		switch {
		case x < 4:
			runtime.Gosched()
		case x < 6:
			time.Sleep(time.Duration(20+x*10) * time.Microsecond)
		}
	}
	fio.VerifIO = func(phase int, kind, name string, n int64) {
		if phase == 0 && (kind == "sync" || kind == "write") {
			pr.Lock()
			x := prnd.Intn(10)
			pr.Unlock()
			switch {
			case x < 3:
				runtime.Gosched()
			case x < 6:
				time.Sleep(time.Duration(30+x*20) * time.Microsecond)
			}
		}
	}
	var wg sync.WaitGroup
	seeds := make([]int64, nclients)
	for c := range seeds {
		seeds[c] = r.Int63()
	}
	// values are generated up front (the value table is not concurrency-safe)
	vals := make([][]int, nclients)
	for c := 0; c < nclients; c++ {
		for j := 0; j < ops; j++ {
			ln := 8 + r.Intn(40)
			if readHeavy {
				ln = 20000 + r.Intn(30000)
			}
			id, _ := e.V.New(ln)
			vals[c] = append(vals[c], id)
		}
	}
	withMerge := i%2 == 0
	if withMerge {
		wg.Add(1)
		go func() {
			defer wg.Done()
			time.Sleep(time.Duration(r.Intn(300)) * time.Microsecond)
			e.DB.Merge()
		}()
	}
	for c := 0; c < nclients; c++ {
		wg.Add(1)
		go func(c int) {
			defer wg.Done()
			cr := rand.New(rand.NewSource(seeds[c]))
			for j := 0; j < ops; j++ {
				k := 1 + cr.Intn(nk)
				x := cr.Intn(10)
				if readHeavy && x < 6 && cr.Intn(4) != 0 {
					x = 9
				}
				switch {
				case x < 4:
					rec.do(e, c+1, "Put", k, vals[c][j])
				case x < 6:
					rec.do(e, c+1, "Delete", k, 0)
				default:
					rec.do(e, c+1, "Get", k, 0)
				}
				if cr.Intn(3) == 0 {
					runtime.Gosched()
				}
			}
		}(c)
	}
	done := make(chan struct{})
	go func() { wg.Wait(); close(done) }()
	select {
	case <-done:
	case <-h.After(h.CallTimeout):
		en.T.Emit(h.Ev{"ev": "note", "check": "nostuck", "ok": false})
		h.ExitIfStuck("stuck", en.T)
	}
	kv.VerifPoint = nil
	fio.VerifIO = nil
	rec.flush(en, e, cfg, "random")
	if e.DB != nil {
		e.DB.Close()
	}
	en.Drop(e.Dir)
	stats["random"]++
}
