package main

import (
	"fmt"
	"io"
	"os"
	"sort"

	kv "github.com/XiXi-2024/xixi-kv"
	"github.com/XiXi-2024/xixi-kv/datafile"
	"github.com/XiXi-2024/xixi-kv/fio"
	"verifharness/h"
)

// Profile merge (C06, C18): seeded histories (plain and batch writes,
// deletes, oversized records, several merges, restarts in between, restarts
// with another DataFileSize), Merge, dumps before / after / after the first
// and second restart, listing and record scan of the data and merge
// directories. After every successful Merge the hint file and the rewritten
// files are decoded with the package's readers (C18), and a copy of both
// directories is opened through the hint and then again by scanning.
func init() { profiles["merge"] = profMerge }

// keys of awkward shapes: lengths 1..300, bytes >= 0x80 that look like varint continuations
func mergeKeys(en *Env, n int, big bool) *h.Keys {
	r := en.R
	lens := []int{1, 2, 5, 9, 63, 64, 127, 128, 129, 255, 300}
	if big {
		// very long keys: the hint file (one entry per live key) then spans several 32 KiB blocks
		lens = []int{9000, 12000, 17000, 25000, 33000, 40000}
	}
	seen := map[string]bool{}
	var ks [][]byte
	for len(ks) < n {
		l := lens[r.Intn(len(lens))]
		k := make([]byte, l)
		for i := range k {
			switch r.Intn(4) {
			case 0:
				k[i] = byte(0x80 + r.Intn(0x80))
			case 1:
				k[i] = byte(r.Intn(4))
			default:
				k[i] = byte('a' + r.Intn(26))
			}
		}
		if !seen[string(k)] {
			seen[string(k)] = true
			ks = append(ks, k)
		}
	}
	return h.NewKeys(ks)
}

func profMerge(en *Env) {
	traces := 14 * en.Scale
	if en.Thorough() {
		traces = 250 * en.Scale
	}
	merges, mok := 0, 0
	for t := 0; t < traces; t++ {
		cfg := h.CoverCfg(en.R, t, []int64{400, 1200, 5000, 70000, 1 << 20})
		m, ok := mergeTrace(en, cfg, t)
		merges += m
		mok += ok
	}
	en.Summary["traces"] = traces
	en.Summary["merges"] = merges
	en.Summary["merges_ok"] = mok
}

// hintEvent decodes the hint file and the rewritten data files of the merge directory.
func hintEvent(e *h.Eng) {
	mdir := h.MergePath(e.Dir)
	ev := h.Ev{"ev": "hint"}
	entries := []map[string]any{}
	herr := "ok"
	func() {
		defer func() {
			if r := recover(); r != nil {
				herr = "panic"
			}
		}()
		if _, err := os.Stat(datafile.GetFileName(mdir, 0, datafile.HintFileSuffix)); err != nil {
			herr = "missing"
			return
		}
		tmp, _ := os.MkdirTemp(e.Scratch, "hint")
		defer os.RemoveAll(tmp)
		b, _ := os.ReadFile(datafile.GetFileName(mdir, 0, datafile.HintFileSuffix))
		os.WriteFile(datafile.GetFileName(tmp, 0, datafile.HintFileSuffix), b, 0644)
		hf, err := datafile.OpenFile(tmp, 0, datafile.HintFileSuffix, fio.StandardFIO)
		if err != nil {
			herr = "err:" + err.Error()
			return
		}
		defer hf.Close()
		rd := hf.NewReader()
		for {
			key, pos, err := rd.NextHintRecord()
			if err != nil {
				if err != io.EOF {
					herr = h.ErrName(err)
				}
				return
			}
			entries = append(entries, map[string]any{"k": e.U.Rank(key), "f": int(pos.Fid), "b": int(pos.BlockID), "o": int(pos.Offset), "s": int(pos.Size)})
		}
	}()
	recs := []map[string]any{}
	rerr := "ok"
	for _, id := range h.DataFileIDs(mdir) {
		rs, en := e.ScanFile(mdir, id, -1)
		if en != "ok" {
			rerr = en
		}
		for _, r := range rs {
			recs = append(recs, r.Ev())
		}
	}
	ev["entries"], ev["herr"], ev["recs"], ev["rerr"] = entries, herr, recs, rerr
	names, _ := h.ListDir(mdir)
	ev["mdir"] = names
	e.T.Emit(ev)
}

// observe opens dir and returns what it holds (values and index positions).
func observe(e *h.Eng, dir string, cfg h.Cfg) (string, []int, []map[string]any, *kv.DB) {
	n := e.U.N()
	vals := make([]int, n)
	idx := make([]map[string]any, n)
	for i := range idx {
		idx[i] = map[string]any{"f": -1, "b": 0, "o": 0, "s": 0}
	}
	var db *kv.DB
	observedLive = []int{-1, -1}
	open := h.Guard(h.CallTimeout, func() error {
		var err error
		db, err = kv.Open(cfg.Options(dir))
		return err
	})
	if open != "ok" {
		return open, vals, idx, nil
	}
	for r := 1; r <= n; r++ {
		key := e.U.Key(r)
		var b []byte
		name := h.Guard(h.CallTimeout, func() error {
			var err error
			b, err = db.Get(key)
			return err
		})
		switch name {
		case "ok":
			vals[r-1] = e.V.ID(b)
		case "notfound":
			vals[r-1] = h.VNil
		default:
			vals[r-1] = h.VErr
		}
	}
	for _, en := range db.VerifState().Index {
		if r := e.U.Rank(en.Key); r > 0 {
			idx[r-1] = map[string]any{"f": int(en.Pos.Fid), "b": int(en.Pos.BlockID), "o": int(en.Pos.Offset), "s": int(en.Pos.Size)}
		}
	}
	// the sizes the load accounted: bytes of live records (all bytes minus the reclaimable ones) and the key count
	if st := db.Stat(); st != nil {
		observedLive = []int{int(st.DiskSize - st.ReclaimableSize), int(st.KeyNum)}
	}
	return open, vals, idx, db
}

// observedLive: {live bytes, keys} accounted by the database observe opened last
var observedLive = []int{-1, -1}

// hintCompare copies data and merge directory, opens the copy through the hint
// (the adopting Open) and then once more (a plain scan of the same files).
func hintCompare(en *Env, e *h.Eng) {
	cdir := en.FreshDir()
	defer en.Drop(cdir)
	sizes := map[string]int64{}
	for _, f := range e.DB.VerifState().Files {
		sizes[fmt.Sprintf("%09d.data", f.ID)] = f.Size
	}
	// a hint file left by an earlier adoption may still be open (and extended) under mmap: it is not needed
	if err := h.CopyImage(e.Dir, cdir, sizes, map[string]bool{"000000000.hint": true}); err != nil {
		return
	}
	if err := h.CopyImage(h.MergePath(e.Dir), h.MergePath(cdir), nil, nil); err != nil {
		return
	}
	// the adoption of this copy is also interrupted: an image of both directories is taken in front of every step of
	// the adoption (process death there), and every image is opened through whatever the resumed adoption leaves and
	// then once more by a plain scan - the two indexes must agree with each other and with the model
	var imgs []string
	if e.Cfg.IO == "std" {
		h.SetIOHandler(func(io h.IOEv) {
			if io.Kind != "point" || len(io.Path) < 6 || io.Path[:6] != "adopt." || len(imgs) >= 6 {
				return
			}
			img := en.FreshDir()
			h.WithoutCapture(func() {
				if h.CopyImage(cdir, img, nil, nil) == nil {
					h.CopyImage(h.MergePath(cdir), h.MergePath(img), nil, nil)
					imgs = append(imgs, img)
				}
			})
		})
	}
	ev := h.Ev{"ev": "hintcmp"}
	oa, va, ia, db := observe(e, cdir, e.Cfg)
	la := observedLive
	h.SetIOHandler(nil)
	defer func() {
		for _, img := range imgs {
			ev2 := h.Ev{"ev": "hintcmp"}
			o1, v1, i1, d1 := observe(e, img, e.Cfg)
			l1 := observedLive
			c1 := "ok"
			if d1 != nil {
				c1 = h.Guard(h.CallTimeout, func() error { return d1.Close() })
			}
			o2, v2, i2, d2 := observe(e, img, e.Cfg)
			if d2 != nil {
				h.Guard(h.CallTimeout, func() error { return d2.Close() })
			}
			ev2["livea"], ev2["liveb"] = l1, observedLive
			ev2["opena"], ev2["vala"], ev2["idxa"], ev2["closea"] = o1, v1, i1, c1
			ev2["openb"], ev2["valb"], ev2["idxb"] = o2, v2, i2
			e.T.Emit(ev2)
			en.Drop(img)
		}
	}()
	ca := "ok"
	if db != nil {
		ca = h.Guard(h.CallTimeout, func() error { return db.Close() })
	}
	ob, vb, ib, db2 := observe(e, cdir, e.Cfg)
	if db2 != nil {
		h.Guard(h.CallTimeout, func() error { return db2.Close() })
	}
	ev["opena"], ev["vala"], ev["idxa"], ev["closea"] = oa, va, ia, ca
	ev["openb"], ev["valb"], ev["idxb"] = ob, vb, ib
	ev["livea"], ev["liveb"] = la, observedLive
	e.T.Emit(ev)
}

func mergeTrace(en *Env, cfg h.Cfg, t int) (merges, mok int) {
	r := en.R
	nkeys := 3 + r.Intn(6)
	bigKeys := t%4 == 2
	if bigKeys {
		// the index types that keep the key slice they are given, so that a key aliasing a reader buffer shows
		cfg.Index = []string{"btree", "skiplist"}[(t/4)%2]
		nkeys = 5 + r.Intn(3)
	}
	brim := t%6 == 1
	if brim && !bigKeys {
		cfg.Limit = 1 << 20 // everything written before the restart shares one file
	}
	dir := en.FreshDir()
	defer en.Drop(dir)
	var u *h.Keys
	if bigKeys {
		u = mergeKeys(en, nkeys, true)
	} else if t%2 == 0 {
		u = mergeKeys(en, nkeys, false)
	} else {
		u = h.PickKeys(r, nkeys, 5+r.Intn(10))
	}
	vs := h.NewValues()
	e := h.NewEng(dir, en.Work+"/scratch", cfg, u, vs, en.T)
	en.T.Emit(h.Ev{"ev": "reset", "n": nkeys, "seed": en.Seed, "prof": "merge"})
	if e.Open(cfg) != "ok" {
		return
	}
	val := func() int {
		var n int
		switch c := r.Intn(10); {
		case c < 1:
			n = 0
		case c < 6:
			n = 1 + r.Intn(100)
		case c < 8:
			n = int(e.Cfg.Limit/4) + r.Intn(64)
			if n > 100000 {
				n = 5000
			}
		case c < 9:
			n = int(e.Cfg.Limit) + r.Intn(64) // alone exceeds the limit
			if n > 100000 {
				n = h.BlockSize + r.Intn(h.BlockSize)
			}
		default:
			n = h.PickLen(r, 0, 8, e.Cfg.Limit) % 120000
		}
		id, _ := vs.New(n)
		return id
	}
	write := func(n int) {
		for i := 0; i < n && !e.Dead; i++ {
			k := 1 + r.Intn(nkeys)
			switch c := r.Intn(10); {
			case c < 6:
				e.Put(k, val())
			case c < 8:
				e.Delete(k)
			default:
				e.NewBatch(false)
				for j := r.Intn(4); j >= 0 && !e.Dead; j-- {
					if r.Intn(3) == 0 {
						e.BDelete(1 + r.Intn(nkeys))
					} else {
						e.BPut(1+r.Intn(nkeys), val())
					}
				}
				if !e.Dead {
					e.Commit()
				}
			}
		}
	}
	if t%3 == 1 {
		// a merge that gives up half-way (its output would need more files than took part: the database is
		// reopened with a much smaller file-size limit), leaving an unmarked merge directory with rewritten
		// records; then deletes and overwrites; the following rounds merge again and restart
		for k := 1; k <= nkeys && !e.Dead; k++ {
			id, _ := vs.New(150 + r.Intn(100))
			e.Put(k, id)
		}
		big := e.Cfg
		small := e.Cfg
		small.Limit = 120
		if brim {
			// the smaller limit sits at the brim: the first k live records fill a file to within a few bytes, so
			// the exact size of the k-th fits where the size estimate the rotation uses does not
			var ps []datafile.DataPos
			h.WithoutCapture(func() {
				for _, en := range e.DB.VerifState().Index {
					ps = append(ps, en.Pos)
				}
			})
			sort.Slice(ps, func(i, j int) bool {
				a, b := ps[i], ps[j]
				if a.Fid != b.Fid {
					return a.Fid < b.Fid
				}
				if a.BlockID != b.BlockID {
					return a.BlockID < b.BlockID
				}
				return a.Offset < b.Offset
			})
			k := 1 + r.Intn(len(ps))
			small.Limit = int64([]int{0, 0, 1, 7, 20, 33, 34, 36}[r.Intn(8)])
			for _, p := range ps[:k] {
				small.Limit += int64(p.Size)
			}
		}
		e.Dump()
		if e.Close() != "ok" || e.Open(small) != "ok" {
			return
		}
		e.Dump()
		e.Merge()
		merges++
		e.Dump()
		if e.Dead || e.Close() != "ok" || e.Open(big) != "ok" {
			return
		}
		e.Dump()
		e.Delete(1)
		if nkeys > 2 {
			e.Put(2, val())
		}
	}
	rounds := 1 + r.Intn(3)
	for rd := 0; rd < rounds && !e.Dead; rd++ {
		write(3 + r.Intn(12))
		if bigKeys {
			for k := 1; k <= nkeys && !e.Dead; k++ { // every long key is live at the merge
				e.Put(k, val())
			}
		}
		if (rd > 0 && r.Intn(2) == 0) || r.Intn(6) == 0 {
			// boundary: nothing is live when the merge runs (its output holds no record at all); after an earlier
			// adopted merge the data directory still holds that merge's hint file
			for k := 1; k <= nkeys && !e.Dead; k++ {
				e.Delete(k)
			}
		}
		if r.Intn(4) == 0 && !e.Dead {
			// restart with another file-size limit before merging: the output may then need
			// fewer, equally many or more files than the input
			nc := e.Cfg
			nc.Limit = []int64{400, 1200, 5000, 70000, 1 << 20}[r.Intn(5)]
			e.Dump()
			if e.Close() != "ok" || e.Open(nc) != "ok" {
				return
			}
		}
		if e.Dead {
			return
		}
		e.Dump()
		name := e.Merge()
		merges++
		e.Dump()
		if e.Dead {
			return
		}
		if name == "ok" {
			mok++
			h.WithoutCapture(func() {
				hintEvent(e)
				hintCompare(en, e)
			})
		}
		write(r.Intn(5)) // post-merge writes land in files that did not take part
		e.Dump()
		if e.Dead {
			return
		}
		// the adopting restart, then a second one
		for i := 0; i < 2; i++ {
			nc := e.Cfg
			if r.Intn(3) == 0 {
				nc = h.RandCfg(r, []int64{e.Cfg.Limit})
				if bigKeys {
					nc.Index = e.Cfg.Index
				}
			}
			if e.Close() != "ok" || e.Open(nc) != "ok" {
				return
			}
			if i == 0 && r.Intn(3) == 0 {
				// the first call after the adopting restart is not a read: files indexed through the hint file have not
				// been touched when it runs
				switch r.Intn(4) {
				case 0:
					e.Merge()
					merges++
				case 1:
					if e.Close() != "ok" || e.Open(nc) != "ok" {
						return
					}
				case 2:
					e.Delete(1 + r.Intn(nkeys))
				default:
					write(1)
				}
				if e.Dead {
					return
				}
			}
			e.Dump()
			if i == 0 {
				write(r.Intn(3))
				e.Dump()
			}
			if e.Dead {
				return
			}
		}
	}
	if !e.Dead && e.DB != nil {
		h.WithoutCapture(func() { e.DB.Close() })
	}
	return
}
