package main

import (
	"verifharness/h"
)

// Profile map (C01): seeded operation sequences over a few keys with
// boundary-directed value lengths, a full dump after every step.
func init() { profiles["map"] = profMap }

var smallLimits = []int64{300, 2000, 40000, 200000, 1 << 20}

type genOpts struct {
	batches, merges, restarts, emptyKey bool
	ops                                 int
	prof                                string
	limits                              []int64
}

// randomWorkload drives one trace on a fresh directory.
func randomWorkload(en *Env, cfg h.Cfg, nkeys int, o genOpts, reopenCfg func() h.Cfg) {
	dir := en.FreshDir()
	defer en.Drop(dir)
	u := h.PickKeys(en.R, nkeys, 5+en.R.Intn(12))
	vs := h.NewValues()
	e := h.NewEng(dir, en.Work+"/scratch", cfg, u, vs, en.T)
	en.T.Emit(h.Ev{"ev": "reset", "n": nkeys, "seed": en.Seed, "prof": o.prof})
	if e.Open(cfg) != "ok" {
		return
	}
	e.Dump()
	r := en.R
	klen := len(u.Key(1))
	var recent []int
	newVal := func() int {
		// an ordinary caller often writes a value it has written before, from the same slice
		if len(recent) > 0 && r.Intn(4) == 0 {
			return recent[r.Intn(len(recent))]
		}
		off := int64(0)
		for _, f := range e.DB.VerifState().Files {
			if f.Active {
				off = f.Size
			}
		}
		id, _ := vs.New(h.PickLen(r, off, klen, e.Cfg.Limit))
		recent = append(recent, id)
		if len(recent) > 6 {
			recent = recent[1:]
		}
		return id
	}
	for i := 0; i < o.ops && !e.Dead; i++ {
		k := 1 + r.Intn(nkeys)
		switch c := r.Intn(100); {
		case c < 40:
			e.Put(k, newVal())
		case c < 55:
			e.Delete(k)
		case c < 62:
			e.Get(k)
		case c < 64 && o.emptyKey:
			switch r.Intn(3) {
			case 0:
				e.Put(0, newVal())
			case 1:
				e.Get(0)
			default:
				e.Delete(0)
			}
		case c < 80 && o.batches:
			e.NewBatch(r.Intn(4) == 0)
			nb := r.Intn(6)
			// every third batch is larger than the file-size limit (flushed in pieces over several files)
			big := r.Intn(3) == 0 && e.Cfg.Limit <= 40000
			if big {
				nb = 4 + r.Intn(5)
			}
			for j := 0; j < nb && !e.Dead; j++ {
				bk := 1 + r.Intn(nkeys)
				switch b := r.Intn(10); {
				case b < 5 && big:
					id, _ := vs.New(int(e.Cfg.Limit)/3 + r.Intn(int(e.Cfg.Limit)/3+1))
					e.BPut(bk, id)
				case b < 5:
					e.BPut(bk, newVal())
				case b < 8:
					e.BDelete(bk)
				default:
					e.BGet(bk)
				}
			}
			if !e.Dead {
				e.Commit()
			}
			// a committed batch stays applied across a restart
			if !e.Dead && o.restarts && r.Intn(3) == 0 {
				e.Dump()
				if e.Close() != "ok" {
					return
				}
				if e.Open(reopenCfg()) != "ok" {
					return
				}
				e.Dump()
			}
			// an ordinary caller writes an earlier value again, from the slice it used before
			if !e.Dead && len(recent) > 0 && r.Intn(2) == 0 {
				e.Put(1+r.Intn(nkeys), recent[r.Intn(len(recent))])
			}
		case c < 83:
			e.Sync()
		case c < 88 && o.merges:
			e.Merge()
		case c < 95 && o.restarts:
			e.Dump()
			if e.Close() != "ok" {
				return
			}
			nc := reopenCfg()
			if e.Open(nc) != "ok" {
				return
			}
		default:
			e.Put(k, newVal())
		}
		e.Dump()
	}
	if !e.Dead && e.DB != nil {
		h.WithoutCapture(func() { e.DB.Close() })
	}
}

func profMap(en *Env) {
	traces := 12 * en.Scale
	ops := 40
	if en.Thorough() {
		traces = 150 * en.Scale
		ops = 60
	}
	cfgs := map[string]int{}
	for t := 0; t < traces; t++ {
		cfg := h.CoverCfg(en.R, t, smallLimits)
		cfgs[cfg.String()]++
		same := cfg
		randomWorkload(en, cfg, 3+en.R.Intn(6), genOpts{batches: true, merges: true, restarts: true, emptyKey: true, ops: ops, prof: "map"},
			func() h.Cfg { return same })
	}
	en.Summary["traces"] = traces
	en.Summary["configs"] = cfgs
}
