package main

import (
	"github.com/XiXi-2024/xixi-kv/datafile"
	"verifharness/h"
)

// Profile map (C01): seeded operation sequences over a few keys with
// boundary-directed value lengths, a full dump after every step.
func init() { profiles["map"] = profMap }

var smallLimits = []int64{300, 2000, 40000, 200000, 1 << 20}

type genOpts struct {
	batches, merges, restarts, emptyKey bool
	backups                             bool // Backup calls in between (the copy is thrown away: only the source is followed)
	bigKeys                             bool // keys of 9 000-40 000 bytes: index entries and hint records span blocks
	brim                                bool // ends with values that fill the active file exactly to what the engine's estimate allows
	ops                                 int
	prof                                string
	limits                              []int64
}

// randomWorkload drives one trace on a fresh directory.
func randomWorkload(en *Env, cfg h.Cfg, nkeys int, o genOpts, reopenCfg func() h.Cfg) {
	dir := en.FreshDir()
	defer en.Drop(dir)
	u := h.PickKeys(en.R, nkeys, 5+en.R.Intn(12))
	if o.bigKeys {
		u = mergeKeys(en, nkeys, true)
	}
	vs := h.NewValues()
	e := h.NewEng(dir, en.Work+"/scratch", cfg, u, vs, en.T)
	en.T.Emit(h.Ev{"ev": "reset", "n": nkeys, "seed": en.Seed, "prof": o.prof})
	if e.Open(cfg) != "ok" {
		return
	}
	e.Dump()
	r := en.R
	klen := len(u.Key(1))
	var recent []int
	newVal := func() int {
		// an ordinary caller often writes a value it has written before, from the same slice
		if len(recent) > 0 && r.Intn(4) == 0 {
			return recent[r.Intn(len(recent))]
		}
		off := int64(0)
		for _, f := range e.DB.VerifState().Files {
			if f.Active {
				off = f.Size
			}
		}
		id, _ := vs.New(h.PickLen(r, off, klen, e.Cfg.Limit))
		recent = append(recent, id)
		if len(recent) > 6 {
			recent = recent[1:]
		}
		return id
	}
	for i := 0; i < o.ops && !e.Dead; i++ {
		k := 1 + r.Intn(nkeys)
		switch c := r.Intn(100); {
		case c < 40:
			e.Put(k, newVal())
		case c < 55:
			e.Delete(k)
		case c < 62:
			e.Get(k)
		case c < 64 && o.emptyKey:
			switch r.Intn(3) {
			case 0:
				e.Put(0, newVal())
			case 1:
				e.Get(0)
			default:
				e.Delete(0)
			}
		case c < 80 && o.batches:
			e.NewBatch(r.Intn(4) == 0)
			nb := r.Intn(6)
			// every third batch is larger than the file-size limit (flushed in pieces over several files)
			big := r.Intn(3) == 0 && e.Cfg.Limit <= 40000
			if big {
				nb = 4 + r.Intn(5)
			}
			for j := 0; j < nb && !e.Dead; j++ {
				bk := 1 + r.Intn(nkeys)
				switch b := r.Intn(10); {
				case b < 5 && big:
					id, _ := vs.New(int(e.Cfg.Limit)/3 + r.Intn(int(e.Cfg.Limit)/3+1))
					e.BPut(bk, id)
				case b < 5:
					e.BPut(bk, newVal())
				case b < 8:
					e.BDelete(bk)
				default:
					e.BGet(bk)
				}
			}
			if !e.Dead {
				e.Commit()
			}
			// a committed batch stays applied across a restart
			if !e.Dead && o.restarts && r.Intn(3) == 0 {
				e.Dump()
				if e.Close() != "ok" {
					return
				}
				if e.Open(reopenCfg()) != "ok" {
					return
				}
				e.Dump()
			}
			// an ordinary caller writes an earlier value again, from the slice it used before
			if !e.Dead && len(recent) > 0 && r.Intn(2) == 0 {
				e.Put(1+r.Intn(nkeys), recent[r.Intn(len(recent))])
			}
		case c < 81 && o.batches && o.restarts:
			// small batches and plain writes on the same keys back to back, nothing observed in between (batches created
			// within one millisecond may carry the same id), then a restart
			for j := 0; j < 3 && !e.Dead; j++ {
				bk := 1 + r.Intn(nkeys)
				e.NewBatch(false)
				e.BPut(bk, newVal())
				if r.Intn(2) == 0 {
					e.BPut(1+r.Intn(nkeys), newVal())
				}
				e.Commit()
				if e.Dead {
					break
				}
				if r.Intn(2) == 0 {
					e.Put(bk, newVal())
				} else {
					e.Delete(bk)
				}
			}
			if !e.Dead {
				e.NewBatch(false)
				e.BPut(1+r.Intn(nkeys), newVal())
				e.Commit()
			}
			if e.Dead {
				return
			}
			e.Dump()
			if e.Close() != "ok" || e.Open(reopenCfg()) != "ok" {
				return
			}
		case c < 83:
			e.Sync()
		case c < 88 && o.merges:
			if o.bigKeys {
				// every long key is live at the merge, and the merge is adopted at once
				for bk := 1; bk <= nkeys && !e.Dead; bk++ {
					e.Put(bk, newVal())
				}
			}
			name := e.Merge()
			if o.bigKeys && name == "ok" && o.restarts && !e.Dead {
				e.Dump()
				if e.Close() != "ok" || e.Open(reopenCfg()) != "ok" {
					return
				}
			}
		case c < 95 && o.restarts:
			e.Dump()
			if e.Close() != "ok" {
				return
			}
			nc := reopenCfg()
			if e.Open(nc) != "ok" {
				return
			}
		case c < 98 && o.backups:
			bdir := en.FreshDir()
			name := h.Guard(h.CallTimeout, func() error { return e.DB.Backup(bdir) })
			e.T.Emit(h.Ev{"ev": "op", "op": "Backup", "k": 0, "v": 0, "n": 0, "a": 0, "res": 0, "err": name})
			en.Drop(bdir)
			if name == "panic" || name == "stuck" {
				e.Dead = true
			}
		default:
			e.Put(k, newVal())
		}
		e.Dump()
	}
	if o.brim && !e.Dead && e.DB != nil && e.Cfg.Limit >= 2000 && e.Cfg.Limit <= 1<<21 {
		// a small record, then the largest value that the engine's own size estimate still lets into that file (several
		// blocks under the larger limits), and one byte more (which must rotate): the file must not outgrow the limit
		for round := 0; round < 2 && !e.Dead; round++ {
			e.Merge() // (rotates: the small record below is the first one of a fresh active file)
			e.Dump()
			if e.Dead {
				break
			}
			id0, _ := vs.New(10 + r.Intn(50))
			e.Put(1, id0)
			e.Dump()
			var off int64
			for _, f := range e.DB.VerifState().Files {
				if f.Active {
					off = f.Size
				}
			}
			lo, hi := 0, int(e.Cfg.Limit)
			for lo < hi {
				m := (lo + hi + 1) / 2
				if off+int64(datafile.GetLogRecordDiskSize(klen, m)) <= e.Cfg.Limit {
					lo = m
				} else {
					hi = m - 1
				}
			}
			if off > 0 && lo > 0 {
				id, _ := vs.New(lo + round)
				e.Put(1+r.Intn(nkeys), id)
				e.Dump()
			}
		}
	}
	if !e.Dead && e.DB != nil {
		h.WithoutCapture(func() { e.DB.Close() })
	}
}

func profMap(en *Env) {
	traces := 12 * en.Scale
	ops := 40
	if en.Thorough() {
		traces = 150 * en.Scale
		ops = 60
	}
	cfgs := map[string]int{}
	for t := 0; t < traces; t++ {
		cfg := h.CoverCfg(en.R, t, smallLimits)
		cfgs[cfg.String()]++
		big := t%6 == 5
		if big {
			cfg.Index = []string{"btree", "skiplist"}[(t/6)%2] // the index types that keep the key slice they are given
		}
		same := cfg
		nk := 3 + en.R.Intn(6)
		if big {
			nk = 5 + en.R.Intn(3) // the hint file of a merge then spans at least two blocks
		}
		randomWorkload(en, cfg, nk, genOpts{batches: true, merges: true, restarts: true, emptyKey: true, backups: t%2 == 1, bigKeys: big, ops: ops, prof: "map"},
			func() h.Cfg { return same })
	}
	en.Summary["traces"] = traces
	en.Summary["configs"] = cfgs
}
