package main

import (
	"verifharness/h"
)

// Profile sync (C13): operation sequences under every SyncStrategy x
// BytesPerSync x BatchOptions.Sync x FileIOType with the I/O interception on;
// no crash images - the trace specification evaluates the sync obligations
// at every return from the logged write/sync events.
func init() { profiles["sync"] = profSync }

func profSync(en *Env) {
	traces := 36 * en.Scale
	ops := 30
	if en.Thorough() {
		traces = 360 * en.Scale
		ops = 60
	}
	bpss := []uint{1, 64, 4096}
	for t := 0; t < traces; t++ {
		cfg := h.CoverCfg(en.R, t, []int64{300, 1500, 40000, 1 << 20})
		cfg.Sync = h.SyncKinds[t%3]
		cfg.IO = h.IOTypes[(t/3)%2]
		cfg.BPS = 0
		if cfg.Sync == "threshold" {
			cfg.BPS = bpss[(t/6)%3]
		}
		syncTrace(en, cfg, ops)
	}
	en.Summary["traces"] = traces
}

func syncTrace(en *Env, cfg h.Cfg, ops int) {
	r := en.R
	nkeys := 2 + r.Intn(5)
	dir := en.FreshDir()
	defer en.Drop(dir)
	u := h.SimpleKeys(nkeys, 5+r.Intn(8))
	vs := h.NewValues()
	e := h.NewEng(dir, en.Work+"/scratch", cfg, u, vs, en.T)
	en.T.Emit(h.Ev{"ev": "reset", "n": nkeys, "seed": en.Seed, "prof": "sync", "cfg": cfg.Ev()})
	c := h.NewCrasher(e, en.Work+"/img")
	c.MaxImages = 0
	defer func() {
		c.Stop()
		c.Flush(nil)
	}()
	if e.Open(cfg) != "ok" {
		return
	}
	val := func() int {
		var n int
		switch x := r.Intn(20); {
		case x < 1:
			n = 0
		case x < 12:
			n = 1 + r.Intn(60)
		case x < 16:
			n = 60 + r.Intn(600)
		case x < 18:
			n = int(cfg.Limit/2) + r.Intn(100)
			if n > 50000 {
				n = 4000 + r.Intn(300)
			}
		case x < 19:
			n = h.BlockSize - 60 + r.Intn(100)
		default:
			n = h.BlockSize + r.Intn(h.BlockSize)
		}
		id, _ := vs.New(n)
		return id
	}
	for i := 0; i < ops && !e.Dead; i++ {
		k := 1 + r.Intn(nkeys)
		switch x := r.Intn(100); {
		case x < 45:
			e.Put(k, val())
		case x < 60:
			e.Delete(k)
		case x < 67:
			e.Sync()
		case x < 88:
			e.NewBatch(r.Intn(2) == 0)
			for j := r.Intn(5); j >= 0 && !e.Dead; j-- {
				if r.Intn(4) == 0 {
					e.BDelete(1 + r.Intn(nkeys))
				} else {
					e.BPut(1+r.Intn(nkeys), val())
				}
			}
			if !e.Dead {
				e.Commit()
			}
		case x < 93:
			if e.Close() != "ok" || e.Open(cfg) != "ok" {
				return
			}
		case x < 97:
			e.Merge() // rotates away from the active file (which must be flushed first) and writes next to the log
		default:
			e.Get(k)
		}
	}
	if !e.Dead && e.DB != nil {
		e.Close()
	}
}
