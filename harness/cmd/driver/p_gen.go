package main

import (
	"bufio"
	"bytes"
	"encoding/json"
	"fmt"
	"os"
	"path/filepath"
	"runtime"
	"strconv"
	"sync"
	"time"

	kv "github.com/XiXi-2024/xixi-kv"
	"github.com/XiXi-2024/xixi-kv/datafile"
	"verifharness/h"
)

// Profile gen (spec -> code): replays behaviours that TLC generated from
// spec/XiXiKVGen.tla (simulation mode) on the real engine. Every behaviour is
// an abstract script of specification actions. The replayer steps the engine
// through it:
//
//	put del sync newbatch bstage bcommit   the client call is started on its own goroutine and parked at
//	                                       the entry of every intercepted I/O call on the data directory
//	io                                     one parked I/O call of the client call is let through
//	ack                                    the client call runs to its return
//	mergebegin .. mergemark                Merge runs on its own goroutine, parked at its named engine points
//	close / openlock adoptstep openload    Close; Open parked at its named points (adoption one step at a time)
//	crash / powerloss                      every goroutine is parked or blocked: the directories are copied
//	                                       (power failure: unflushed tails are cut as the behaviour says), the
//	                                       running engine is abandoned and the run continues on the image
//
// Where the engine takes more or fewer steps than the specification (an extra I/O call, a different rotation
// point) the replayer stays on the nearest point; this only changes which real execution is explored. The
// recorded execution (call/ret/io events as in the crash profiles, plus fault / recovered / view) is judged by
// CrashTrace.tla - the replayer has no oracle.
func init() { profiles["gen"] = profGen }

type gstep struct {
	A string
	K int
	V int
	X []int
}

func (s *gstep) UnmarshalJSON(b []byte) error {
	var raw []json.RawMessage
	if err := json.Unmarshal(b, &raw); err != nil || len(raw) < 4 {
		return fmt.Errorf("bad step %s", b)
	}
	json.Unmarshal(raw[0], &s.A)
	json.Unmarshal(raw[1], &s.K)
	json.Unmarshal(raw[2], &s.V)
	return json.Unmarshal(raw[3], &s.X)
}

type gscript struct {
	ID    int     `json:"id"`
	Sync  string  `json:"sync"`
	NKeys int     `json:"nkeys"`
	Steps []gstep `json:"steps"`
}

func profGen(en *Env) {
	path := os.Getenv("VERIF_GEN_SCRIPTS")
	f, err := os.Open(path)
	if err != nil {
		fmt.Fprintln(os.Stderr, "gen: cannot read scripts:", err)
		os.Exit(2)
	}
	defer f.Close()
	sc := bufio.NewScanner(f)
	sc.Buffer(make([]byte, 1<<20), 1<<26)
	stats := map[string]int{}
	n := 0
	for sc.Scan() {
		var s gscript
		if err := json.Unmarshal(sc.Bytes(), &s); err != nil {
			fmt.Fprintln(os.Stderr, "gen: bad script line:", err)
			os.Exit(2)
		}
		runScript(en, &s, n, stats)
		n++
	}
	en.Summary["scripts"] = n
	en.Summary["stats"] = stats
}

// ---------------------------------------------------------------- scheduler

const (
	gRunning = iota
	gParked
	gDone
)

type grole struct {
	name       string
	gateIO     bool // park at the entry of I/O calls on data-directory files
	gatePoints bool // park at named engine points
	free       bool // pass every gate
	mute       bool // abandoned: nothing it does is logged any more
	state      int
	gate       string
	rel        chan struct{}
	panicked   bool
}

type gsched struct {
	mu       sync.Mutex
	roles    map[int64]*grole
	run      *genRun
	ioSeq    int
	frozen   bool       // a directory image is being taken: no I/O call may start
	inflight int        // I/O calls between their entry and their exit
	thaw     *sync.Cond // signalled when frozen is cleared / inflight drops
}

// ioEnter is called at the entry of every engine I/O call (after the gate, if any): it waits while an image is
// being taken and then counts the call as in flight, so that a directory image never holds half of a write.
func (s *gsched) ioEnter() {
	s.mu.Lock()
	for s.frozen {
		s.thaw.Wait()
	}
	s.inflight++
	s.mu.Unlock()
}

func (s *gsched) ioExit() {
	s.mu.Lock()
	s.inflight--
	s.thaw.Broadcast()
	s.mu.Unlock()
}

// freeze stops new I/O calls and waits until none is in flight (bounded: a call that never ends is reported by
// the driver's watchdogs, not here); unfreeze lets them go on.
func (s *gsched) freeze() {
	s.mu.Lock()
	s.frozen = true
	sw := h.NewStopwatch()
	for s.inflight > 0 && sw.Elapsed() < 20*time.Second {
		s.mu.Unlock()
		time.Sleep(200 * time.Microsecond)
		s.mu.Lock()
	}
	s.mu.Unlock()
}

func (s *gsched) unfreeze() {
	s.mu.Lock()
	s.frozen = false
	s.thaw.Broadcast()
	s.mu.Unlock()
}

func goid() int64 {
	var b [64]byte
	n := runtime.Stack(b[:], false)
	s := b[10:n] // after "goroutine "
	if i := bytes.IndexByte(s, ' '); i > 0 {
		id, _ := strconv.ParseInt(string(s[:i]), 10, 64)
		return id
	}
	return -1
}

func (s *gsched) lookup(id int64) *grole {
	s.mu.Lock()
	defer s.mu.Unlock()
	return s.roles[id]
}

func (s *gsched) park(r *grole, gate string) {
	s.mu.Lock()
	if r.free {
		s.mu.Unlock()
		return
	}
	ch := make(chan struct{})
	r.state, r.gate, r.rel = gParked, gate, ch
	s.mu.Unlock()
	<-ch
}

func (s *gsched) release(r *grole) {
	s.mu.Lock()
	if r.state == gParked {
		ch := r.rel
		r.rel = nil
		r.state = gRunning
		s.mu.Unlock()
		close(ch)
		return
	}
	s.mu.Unlock()
}

func (s *gsched) setFree(r *grole) {
	s.mu.Lock()
	r.free = true
	s.mu.Unlock()
	s.release(r)
}

// settle waits until the role is parked or has finished; after the timeout it is taken to be blocked on a lock
// (it will arrive at a gate, or finish, once another role lets go).
func (s *gsched) settle(r *grole, timeout time.Duration) int {
	sw := h.NewStopwatch()
	for {
		s.mu.Lock()
		st := r.state
		s.mu.Unlock()
		if st != gRunning || sw.Elapsed() > timeout {
			return st
		}
		time.Sleep(20 * time.Microsecond)
	}
}

func (s *gsched) stateOf(r *grole) (int, string) {
	s.mu.Lock()
	defer s.mu.Unlock()
	return r.state, r.gate
}

func (s *gsched) handle(ev h.IOEv) {
	r := s.lookup(goid())
	if r == nil {
		return // the harness's own file accesses (observations, image copies)
	}
	if ev.Kind == "point" && r.gateIO {
		// a client call: the point between its log append and its index update is the gate of the behaviour's "ack"
		if ev.Path == "put.appended" || ev.Path == "delete.appended" {
			s.park(r, ev.Path)
		}
		return
	}
	if ev.Kind == "point" {
		// a role is parked *in front of* the file-system operation that the next step of the behaviour stands for: the
		// points that precede no operation (lock taken, rotation done) are passed
		if r.gatePoints && ev.Path != "merge.rewrite" && ev.Path != "merge.done" && ev.Path != "open.adopted" &&
			ev.Path != "open.locked" && ev.Path != "merge.started" {
			s.park(r, ev.Path)
		}
		return
	}
	g := s.run
	ref := h.RefOf(ev.Path, g.dir)
	if ev.Phase == 0 {
		if r.gateIO && ref.D == 0 && ref.X == "data" {
			s.park(r, ev.Kind+":"+filepath.Base(ev.Path))
		}
		s.ioEnter()
		return
	}
	// completed I/O call
	s.ioExit()
	s.mu.Lock()
	mute := r.mute
	s.ioSeq++
	s.mu.Unlock()
	if mute {
		return
	}
	n := ev.N
	name := filepath.Base(ev.Path)
	g.fmu.Lock()
	if ref.D == 0 && ref.X == "data" {
		switch ev.Kind {
		case "open":
			var sz int64
			if fi, err := os.Stat(ev.Path); err == nil {
				sz = fi.Size()
			}
			if old, seen := g.written[name]; !seen || old != sz {
				g.written[name], g.synced[name] = sz, sz
			}
			n = sz
		case "write":
			g.written[name] += ev.N
		case "sync":
			g.synced[name] = g.written[name]
		}
	}
	g.fmu.Unlock()
	g.en.T.Emit(h.Ev{"ev": "io", "kind": ev.Kind, "d": ref.D, "x": ref.X, "f": ref.ID, "n": n})
}

// ---------------------------------------------------------------- one script

type openResult struct {
	db   *kv.DB
	name string
}

type genRun struct {
	en      *Env
	s       *gsched
	cfg     h.Cfg
	dir     string
	dirs    []string // every directory used (removed at the end)
	e       *h.Eng
	db      *kv.DB
	batch   *kv.Batch
	fmu     sync.Mutex
	written map[string]int64
	synced  map[string]int64
	client  *grole
	merge   *grole
	opener  *grole
	openRes chan openResult
	bopen   bool
	pending bool // a fault whose recovery has not been observed yet
	dead    bool
	vcount  int
	unit    int // bytes one ordinary record occupies at most
	nkeys   int
	imgs    int
	stats   map[string]int
	olds    []*kv.DB
}

func (g *genRun) spawn(name string, gateIO, gatePoints, free bool, fn func(r *grole)) *grole {
	r := &grole{name: name, gateIO: gateIO, gatePoints: gatePoints, free: free, state: gRunning}
	started := make(chan struct{})
	go func() {
		id := goid()
		g.s.mu.Lock()
		g.s.roles[id] = r
		g.s.mu.Unlock()
		close(started)
		defer func() {
			if x := recover(); x != nil {
				buf := make([]byte, 1<<14)
				n := runtime.Stack(buf, false)
				fmt.Fprintf(os.Stderr, "PANIC in engine call (gen): %v\n%s\n", x, buf[:n])
				r.panicked = true
			}
			g.s.mu.Lock()
			delete(g.s.roles, id)
			r.state = gDone
			g.s.mu.Unlock()
		}()
		fn(r)
	}()
	<-started
	return r
}

func (g *genRun) muted(r *grole) bool {
	g.s.mu.Lock()
	defer g.s.mu.Unlock()
	return r.mute
}

// startCall runs one client call on its own goroutine; it is parked at its I/O calls unless free.
func (g *genRun) startCall(op string, k, v, n, a int, free bool, fn func() (int, error)) {
	g.finishClient()
	if g.dead {
		return
	}
	g.en.T.Emit(h.Ev{"ev": "call", "op": op, "k": k, "v": v, "n": n, "a": a})
	r := g.spawn("client", true, false, free, func(r *grole) {
		res := 0
		name := "panic"
		func() {
			defer func() {
				if x := recover(); x != nil {
					fmt.Fprintf(os.Stderr, "PANIC in engine call (gen %s): %v\n", op, x)
					r.panicked = true
				}
			}()
			rr, err := fn()
			res, name = rr, h.ErrName(err)
		}()
		if !g.muted(r) {
			g.en.T.Emit(h.Ev{"ev": "ret", "op": op, "k": k, "res": res, "err": name})
		}
	})
	g.client = r
	if g.s.settle(r, 2*time.Second) == gDone {
		g.clientDone()
	}
}

func (g *genRun) clientDone() {
	if g.client != nil && g.client.panicked {
		g.dead = true
	}
	g.client = nil
}

// finishClient lets the client call in flight run to its return.
func (g *genRun) finishClient() {
	r := g.client
	if r == nil {
		return
	}
	g.s.setFree(r)
	if g.s.settle(r, 5*time.Second) != gDone {
		// blocked behind another parked role: let everything run
		for _, o := range []*grole{g.merge, g.opener} {
			if o != nil {
				g.s.setFree(o)
			}
		}
		if g.s.settle(r, 20*time.Second) != gDone {
			g.dead = true
			g.stats["client_call_never_returned"]++
			return
		}
		g.stats["client_needed_everything_released"]++
	}
	g.clientDone()
}

func (g *genRun) val(v int) (int, []byte) {
	g.vcount++
	n := 120 + g.vcount%23
	if v == 3 { // a value of BigVals: the record alone exceeds every file-size limit an Open may choose
		n = int(g.limBytes(3)) + 30 + g.vcount%17
	}
	return g.e.V.New(n)
}

func (g *genRun) key(k int) []byte { return g.e.U.Key(k) }

// limBytes: the DataFileSize under which n ordinary records fit a file and the next one rotates
// (a limit of n units in the specification)
func (g *genRun) limBytes(n int) int64 { return int64(n*g.unit + 40) }

// observe reads every key and the key list of the open database (quiescent instants only).
func (g *genRun) observe() (vals []int, keys []int, geterr string, ok bool) {
	db := g.db
	vals = make([]int, g.nkeys)
	keys = []int{}
	geterr = "ok"
	done := make(chan struct{})
	go func() {
		defer func() {
			if x := recover(); x != nil {
				geterr = "panic"
			}
			close(done)
		}()
		for k := 1; k <= g.nkeys; k++ {
			b, err := db.Get(g.key(k))
			switch name := h.ErrName(err); name {
			case "ok":
				vals[k-1] = g.e.V.ID(b)
			case "notfound":
				vals[k-1] = h.VNil
			default:
				vals[k-1] = h.VErr
				geterr = name
			}
		}
		for _, k := range db.ListKeys() {
			keys = append(keys, g.e.U.Rank(k))
		}
	}()
	select {
	case <-done:
		return vals, keys, geterr, true
	case <-h.After(3 * time.Second):
		// a reader blocked behind a parked role: no observation here (it finishes later, unobserved)
		g.stats["observation_skipped"]++
		return nil, nil, "", false
	}
}

// backup: Backup at a quiescent instant, then the copy is opened as a database of its own and shown as a view of
// that instant (the behaviour's "backup" step; nothing was acknowledged in between, so the copy must hold exactly
// what the source shows). The harness goroutine is no role: its I/O is neither gated nor logged.
func (g *genRun) backup() {
	if g.dead || g.db == nil || g.client != nil || g.bopen || g.opener != nil {
		return
	}
	db := g.db
	bdir := g.en.FreshDir()
	defer g.en.Drop(bdir)
	type res struct {
		vals, keys []int
		geterr     string
	}
	done := make(chan res, 1)
	go func() {
		out := res{vals: make([]int, g.nkeys), keys: []int{}, geterr: "ok"}
		defer func() {
			if x := recover(); x != nil {
				out.geterr = "panic"
			}
			done <- out
		}()
		if err := db.Backup(bdir); err != nil {
			out.geterr = "backup:" + h.ErrName(err)
			return
		}
		c, err := kv.Open(g.cfg.Options(bdir))
		if err != nil {
			out.geterr = "open:" + h.ErrName(err)
			return
		}
		defer c.Close()
		for k := 1; k <= g.nkeys; k++ {
			b, err := c.Get(g.key(k))
			switch name := h.ErrName(err); name {
			case "ok":
				out.vals[k-1] = g.e.V.ID(b)
			case "notfound":
				out.vals[k-1] = h.VNil
			default:
				out.vals[k-1] = h.VErr
				out.geterr = name
			}
		}
		for _, k := range c.ListKeys() {
			out.keys = append(out.keys, g.e.U.Rank(k))
		}
	}()
	select {
	case out := <-done:
		g.stats["backups"]++
		g.en.T.Emit(h.Ev{"ev": "view", "vals": out.vals, "keys": out.keys, "geterr": out.geterr, "src": "backup"})
	case <-h.After(3 * time.Second):
		// blocked behind a parked role that holds the database lock: no observation here
		g.stats["backup_skipped"]++
	}
}

func (g *genRun) view() {
	if g.dead || g.db == nil || g.client != nil || g.bopen || g.opener != nil {
		return
	}
	if vals, keys, geterr, ok := g.observe(); ok {
		g.en.T.Emit(h.Ev{"ev": "view", "vals": vals, "keys": keys, "geterr": geterr})
	}
}

// quiesce waits until no role is making progress (each is parked, finished, or blocked on a lock).
func (g *genRun) quiesce() {
	for _, r := range []*grole{g.client, g.merge, g.opener} {
		if r != nil {
			g.s.settle(r, 60*time.Millisecond)
		}
	}
	// a role that is still "running" must be blocked: no I/O may complete while the image is copied
	for i := 0; i < 50; i++ {
		g.s.mu.Lock()
		a := g.s.ioSeq
		g.s.mu.Unlock()
		time.Sleep(2 * time.Millisecond)
		g.s.mu.Lock()
		b := g.s.ioSeq
		g.s.mu.Unlock()
		if a == b {
			return
		}
	}
}

// fault abandons the running engine and continues on a copy of its directories.
func (g *genRun) fault(proc bool, x []int, torn bool) {
	t0 := time.Now()
	g.quiesce()
	g.stats["ms_fault_quiesce"] += int(time.Since(t0).Milliseconds())
	defer func() { g.stats["ms_fault_total"] += int(time.Since(t0).Milliseconds()) }()
	g.imgs++
	img := filepath.Join(g.en.Work, fmt.Sprintf("gen%05d-i%02d", g.en.dirSeq, g.imgs))
	os.RemoveAll(img)
	os.RemoveAll(h.MergePath(img))
	g.s.freeze() // no I/O call starts and none is in flight while the directories are copied
	h.CopyImage(g.dir, img, nil, nil)
	h.CopyImage(h.MergePath(g.dir), h.MergePath(img), nil, nil)
	g.s.unfreeze()
	g.dirs = append(g.dirs, img)
	cuts := []map[string]any{}
	if !proc {
		ids := h.DataFileIDs(img)
		// x = kept_1, total_1, kept_2, total_2 ... per file of the behaviour in ascending id order; files are
		// aligned from the newest one backwards (only the newest files can have an unflushed tail)
		nm := len(x) / 2
		for j := 0; j < nm && j < len(ids); j++ {
			kept, total := x[2*(nm-1-j)], x[2*(nm-1-j)+1]
			id := ids[len(ids)-1-j]
			name := filepath.Base(datafile.GetFileName(img, uint32(id), datafile.DataFileSuffix))
			g.fmu.Lock()
			syn, tracked := g.synced[name]
			g.fmu.Unlock()
			if !tracked {
				continue
			}
			fi, err := os.Stat(filepath.Join(img, name))
			if err != nil {
				continue
			}
			size := fi.Size()
			recs, _ := g.e.ScanFile(img, id, -1)
			keep := len(recs) - (total - kept)
			if keep < 0 {
				keep = 0
			}
			cut := size
			if keep < len(recs) {
				cut = int64(recs[keep].B*h.BlockSize + recs[keep].O)
				if torn && j == 0 {
					cut += 1 + int64(g.en.R.Intn(recs[keep].S-1))
				}
			}
			if cut < syn {
				cut = syn
			}
			if cut < size {
				os.Truncate(filepath.Join(img, name), cut)
				cuts = append(cuts, map[string]any{"f": id, "n": cut})
				g.stats["files_cut"]++
			}
		}
	}
	g.stats["ms_fault_image"] += int(time.Since(t0).Milliseconds())
	g.en.T.Emit(h.Ev{"ev": "fault", "proc": proc, "cuts": cuts})
	g.stats["faults"]++
	// abandon the old generation: nothing it does from now on is logged
	g.s.mu.Lock()
	for _, r := range g.s.roles {
		r.mute = true
	}
	g.s.mu.Unlock()
	for _, r := range []*grole{g.client, g.merge, g.opener} {
		if r != nil {
			g.s.setFree(r)
		}
	}
	if g.client != nil {
		g.s.settle(g.client, 10*time.Second)
	}
	g.releaseBatch() // a Merge waiting for the database lock can only go on once the abandoned batch lets go
	for _, r := range []*grole{g.merge, g.opener} {
		if r != nil {
			g.s.settle(r, 10*time.Second)
		}
	}
	if g.opener != nil {
		select {
		case or := <-g.openRes:
			if or.db != nil {
				g.olds = append(g.olds, or.db)
			}
		case <-h.After(10 * time.Second):
		}
	}
	if g.db != nil {
		g.olds = append(g.olds, g.db)
	}
	g.closeOlds()
	g.client, g.merge, g.opener, g.db, g.batch, g.bopen = nil, nil, nil, nil, nil, false
	g.dir = img
	g.e.Dir = img
	g.fmu.Lock()
	for _, c := range cuts {
		name := filepath.Base(datafile.GetFileName(img, uint32(c["f"].(int)), datafile.DataFileSuffix))
		n := c["n"].(int64)
		g.written[name] = n
		if g.synced[name] > n {
			g.synced[name] = n
		}
	}
	g.fmu.Unlock()
	g.pending = true
}

// releaseBatch: an abandoned engine's open batch still holds the database lock; it is committed (unlogged, on
// the abandoned directory) so that the old database can be closed.
func (g *genRun) releaseBatch() {
	if !g.bopen || g.batch == nil {
		return
	}
	b := g.batch
	done := make(chan struct{})
	go func() {
		defer func() { recover(); close(done) }()
		b.Commit()
	}()
	select {
	case <-done:
	case <-h.After(5 * time.Second):
	}
	g.bopen = false
}

func (g *genRun) closeOlds() {
	for _, db := range g.olds {
		d := db
		done := make(chan struct{})
		go func() {
			defer func() { recover(); close(done) }()
			d.Close()
		}()
		select {
		case <-done:
		case <-h.After(5 * time.Second):
		}
	}
	g.olds = nil
}

// openStart starts Open on the current directory, parked at its named points (free: runs through).
func (g *genRun) openStart(free bool) {
	g.en.T.Emit(h.Ev{"ev": "call", "op": "Open", "k": 0, "v": 0, "n": 0, "a": 0, "cfg": g.cfg.Ev()})
	res := make(chan openResult, 1)
	g.openRes = res
	dir := g.dir
	g.opener = g.spawn("open", false, true, free, func(r *grole) {
		var db *kv.DB
		name := "panic"
		func() {
			defer func() {
				if x := recover(); x != nil {
					fmt.Fprintf(os.Stderr, "PANIC in engine call (gen Open): %v\n", x)
				}
			}()
			d, err := kv.Open(g.cfg.Options(dir))
			db, name = d, h.ErrName(err)
		}()
		if !g.muted(r) {
			g.en.T.Emit(h.Ev{"ev": "ret", "op": "Open", "k": 0, "res": 0, "err": name})
		}
		res <- openResult{db, name}
	})
	g.s.settle(g.opener, 2*time.Second)
}

// openFinish lets Open run to its return and observes what it exposes.
func (g *genRun) openFinish() {
	r := g.opener
	if r == nil {
		return
	}
	g.s.setFree(r)
	if g.s.settle(r, 30*time.Second) != gDone {
		g.dead = true
		g.stats["open_never_returned"]++
		return
	}
	or := <-g.openRes
	db, name := or.db, or.name
	g.opener = nil
	g.db = db
	if db == nil {
		if g.pending {
			g.en.T.Emit(h.Ev{"ev": "recovered", "open": name, "geterr": "ok", "vals": make([]int, g.nkeys), "keys": []int{}})
			g.pending = false
		}
		g.dead = true // the script cannot go on without a database
		g.stats["open_failed"]++
		return
	}
	if g.pending {
		vals, keys, geterr, ok := g.observe()
		if !ok {
			g.dead = true
			return
		}
		g.en.T.Emit(h.Ev{"ev": "recovered", "open": "ok", "geterr": geterr, "vals": vals, "keys": keys})
		g.pending = false
		g.stats["recoveries"]++
	} else {
		g.view()
	}
}

func (g *genRun) stepMerge(until func(gate string) bool, max int) {
	r := g.merge
	if r == nil {
		return
	}
	for i := 0; i < max; i++ {
		st, _ := g.s.stateOf(r)
		if st != gParked {
			break
		}
		g.s.release(r)
		st = g.s.settle(r, time.Second)
		_, gate := g.s.stateOf(r)
		if st != gParked || until == nil || until(gate) {
			break
		}
	}
	if st, _ := g.s.stateOf(r); st == gDone {
		g.merge = nil
	}
}

func runScript(en *Env, sc *gscript, idx int, stats map[string]int) {
	dir := en.FreshDir()
	nkeys := sc.NKeys
	if nkeys < 2 {
		nkeys = 2
	}
	var u *h.Keys
	if idx%4 == 3 {
		u = h.TwinKeys(nkeys)
	} else {
		u = h.SimpleKeys(nkeys, 6)
	}
	vs := h.NewValues()
	klen := len(u.Key(1))
	// two ordinary records fit a file, the third rotates (Limit = 2 units in the specification)
	unit := h.RecLen(klen, 143) + h.ChunkHdr
	cfg := h.Cfg{Index: h.IndexTypes[idx%3], Shards: []int{1, 4, 16}[(idx/3)%3], IO: "std", Limit: int64(2*unit + 40), Sync: sc.Sync}
	g := &genRun{en: en, cfg: cfg, dir: dir, dirs: []string{dir}, written: map[string]int64{}, synced: map[string]int64{}, nkeys: nkeys, stats: stats, unit: unit}
	g.s = &gsched{roles: map[int64]*grole{}, run: g}
	g.s.thaw = sync.NewCond(&g.s.mu)
	g.e = h.NewEng(dir, en.Work+"/scratch", cfg, u, vs, en.T)
	defer func() {
		h.SetIOHandler(nil)
		g.s.mu.Lock()
		for _, r := range g.s.roles {
			r.mute = true
		}
		g.s.mu.Unlock()
		for _, r := range []*grole{g.client, g.merge, g.opener} {
			if r != nil {
				g.s.setFree(r)
			}
		}
		if g.client != nil {
			g.s.settle(g.client, 10*time.Second)
		}
		g.releaseBatch()
		for _, r := range []*grole{g.merge, g.opener} {
			if r != nil {
				g.s.settle(r, 10*time.Second)
			}
		}
		if g.db != nil {
			g.olds = append(g.olds, g.db)
		}
		g.closeOlds()
		for _, d := range g.dirs {
			en.Drop(d)
		}
	}()
	en.T.Emit(h.Ev{"ev": "reset", "n": nkeys, "seed": en.Seed, "prof": "gen", "script": sc.ID, "cfg": cfg.Ev()})
	h.SetIOHandler(g.s.handle)
	g.openStart(true)
	g.openFinish()
	for i := range sc.Steps {
		if g.dead {
			stats["scripts_cut_short"]++
			break
		}
		st := &sc.Steps[i]
		stats["steps"]++
		t0 := time.Now()
		switch st.A {
		case "put":
			vid, val := g.val(st.V)
			key := g.key(st.K)
			g.startCall("Put", st.K, vid, len(val), 0, false, func() (int, error) { return 0, g.db.Put(key, val) })
		case "del":
			key := g.key(st.K)
			g.startCall("Delete", st.K, 0, 0, 0, false, func() (int, error) { return 0, g.db.Delete(key) })
			if g.client == nil {
				g.view()
			}
		case "sync":
			g.startCall("Sync", 0, 0, 0, 0, false, func() (int, error) { return 0, g.db.Sync() })
		case "io":
			if r := g.client; r != nil {
				g.s.release(r)
				if g.s.settle(r, 2*time.Second) == gDone {
					g.clientDone()
				}
			}
		case "ack":
			g.finishClient()
			g.view()
		case "newbatch":
			sy := st.K == 1
			g.startCall("NewBatch", 0, 0, 0, st.K, true, func() (int, error) {
				g.batch = g.db.NewBatch(kv.BatchOptions{Sync: sy})
				return 0, nil
			})
			g.finishClient()
			g.bopen = true
		case "bstage":
			b := g.batch
			key := g.key(st.K)
			if st.V == 0 {
				g.startCall("BDelete", st.K, 0, 0, 0, false, func() (int, error) { return 0, b.Delete(key) })
			} else {
				vid, val := g.val(st.V)
				g.startCall("BPut", st.K, vid, len(val), 0, false, func() (int, error) { return 0, b.Put(key, val) })
			}
		case "bcommit":
			b := g.batch
			g.finishClient()
			g.startCall("Commit", 0, 0, 0, 0, false, func() (int, error) { return 0, b.Commit() })
			g.bopen = false // whatever happens from here on, the client no longer issues batch calls
			if g.client == nil {
				g.view()
			}
		case "mergebegin":
			g.finishClient()
			db := g.db
			g.merge = g.spawn("merge", false, true, false, func(r *grole) { db.Merge() })
			if g.s.settle(g.merge, 2*time.Second) == gDone {
				g.merge = nil
			}
			stats["merges"]++
		case "mergerm":
			g.stepMerge(nil, 1)
		case "mergemk":
			g.stepMerge(func(gate string) bool { return gate == "merge.scan" || gate == "merge.scanned" }, 5)
		case "mergescan":
			switch st.K {
			case 0: // one record
				if _, gate := g.s.stateOf(g.mergeOrNil()); gate == "merge.scan" {
					g.stepMerge(nil, 1)
				}
			case 2: // the scan is over
				if _, gate := g.s.stateOf(g.mergeOrNil()); gate == "merge.scan" {
					g.stepMerge(func(gate string) bool { return gate == "merge.scanned" }, 64)
				}
			}
		case "mergemark":
			if r := g.merge; r != nil {
				g.s.setFree(r)
				wait := 10 * time.Second
				if g.bopen || g.client != nil {
					// the flush that precedes the marker needs the database lock, which an open batch or a parked
					// client call holds: the merge ends when they do (a behaviour of a deviating model may say otherwise)
					wait = 300 * time.Millisecond
				}
				if g.s.settle(r, wait) == gDone {
					g.merge = nil
				}
			}
		case "close":
			g.finishClient()
			db := g.db
			g.startCall("Close", 0, 0, 0, 0, true, func() (int, error) { return 0, db.Close() })
			g.finishClient()
			g.db = nil
		case "openlock":
			if st.K > 0 { // the file-size limit this Open chooses (units of the specification)
				g.cfg.Limit = g.limBytes(st.K)
			}
			g.openStart(false)
		case "adoptstep":
			if r := g.opener; r != nil {
				g.s.release(r)
				g.s.settle(r, 2*time.Second)
			}
		case "openload":
			g.openFinish()
		case "crash":
			g.fault(true, nil, false)
		case "powerloss":
			g.fault(false, st.X, st.K == 1)
		case "backup":
			g.backup()
		case "retry":
		default:
			fmt.Fprintln(os.Stderr, "gen: unknown step", st.A)
			os.Exit(2)
		}
		stats["ms_"+st.A] += int(time.Since(t0).Milliseconds())
	}
	if g.pending && !g.dead {
		// the behaviour ended between a fault and the end of the recovery: finish the recovery so that the
		// fault is observed
		if g.opener == nil {
			g.openStart(true)
		}
		g.openFinish()
	}
	g.epilogue()
}

// epilogue: whatever state the behaviour ended in, the run is brought to a quiescent open database, which is then
// written to, restarted and read (all recorded and judged like the rest): a state that looks right at the end of
// the behaviour must also survive further use.
func (g *genRun) epilogue() {
	if g.dead {
		return
	}
	g.finishClient()
	if r := g.merge; r != nil {
		g.s.setFree(r)
		if g.s.settle(r, 10*time.Second) != gDone {
			return
		}
		g.merge = nil
	}
	if g.opener != nil {
		g.openFinish()
	}
	if g.dead {
		return
	}
	if g.bopen && g.batch != nil {
		b := g.batch
		g.startCall("Commit", 0, 0, 0, 0, true, func() (int, error) { return 0, b.Commit() })
		g.finishClient()
		g.bopen = false
	}
	if g.db == nil {
		g.openStart(true)
		g.openFinish()
	}
	if g.dead || g.db == nil {
		return
	}
	g.stats["epilogues"]++
	g.view()
	vid, val := g.val(1)
	key := g.key(1)
	g.startCall("Put", 1, vid, len(val), 0, true, func() (int, error) { return 0, g.db.Put(key, val) })
	g.finishClient()
	g.view()
	for i := 0; i < 2 && !g.dead; i++ {
		db := g.db
		g.startCall("Close", 0, 0, 0, 0, true, func() (int, error) { return 0, db.Close() })
		g.finishClient()
		g.db = nil
		g.openStart(true)
		g.openFinish()
		if g.dead || g.db == nil {
			return
		}
		if i == 0 {
			k2 := g.key(g.nkeys)
			g.startCall("Delete", g.nkeys, 0, 0, 0, true, func() (int, error) { return 0, g.db.Delete(k2) })
			g.finishClient()
			g.view()
		}
	}
}

func (g *genRun) mergeOrNil() *grole {
	if g.merge == nil {
		return &grole{state: gDone}
	}
	return g.merge
}
