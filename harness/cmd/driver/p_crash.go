package main

import (
	"verifharness/h"
)

// Profile crash (C03): a seeded workload runs with the I/O interception on; a
// directory image is taken at every I/O call boundary; every image is
// reopened with the real Open as is (process death) and with the unsynced
// tail of each file cut (power failure); a sample of the recoveries is
// continued (Put, Close, Open, dump).
// Profile batchcrash (C04): the same with batch-heavy workloads (single-piece,
// multi-piece and oversize batches, Sync on/off).
func init() {
	profiles["crash"] = func(en *Env) { profCrash(en, false) }
	profiles["batchcrash"] = func(en *Env) { profCrash(en, true) }
}

func profCrash(en *Env, batchHeavy bool) {
	traces := 6 * en.Scale
	ops := 22
	if en.Thorough() {
		traces = 60 * en.Scale
		ops = 35
	}
	stats := map[string]int{}
	for t := 0; t < traces; t++ {
		cfg := h.CoverCfg(en.R, t, []int64{250, 600, 2500, 50000})
		cfg.Sync = h.SyncKinds[t%3]
		if cfg.Sync == "threshold" {
			cfg.BPS = []uint{1, 64, 400}[en.R.Intn(3)]
		} else {
			cfg.BPS = 0
		}
		// the mmap back-end fails every crash image (known finding F26): keep it to one trace in six
		if t%6 != 5 {
			cfg.IO = "std"
		} else {
			cfg.IO = "mmap"
		}
		crashTrace(en, cfg, ops, batchHeavy, stats)
	}
	en.Summary["traces"] = traces
	en.Summary["stats"] = stats
}

func crashTrace(en *Env, cfg h.Cfg, ops int, batchHeavy bool, stats map[string]int) {
	r := en.R
	nkeys := 2 + r.Intn(4)
	dir := en.FreshDir()
	defer en.Drop(dir)
	u := h.PickKeys(r, nkeys, 5+r.Intn(6))
	vs := h.NewValues()
	e := h.NewEng(dir, en.Work+"/scratch", cfg, u, vs, en.T)
	en.T.Emit(h.Ev{"ev": "reset", "n": nkeys, "seed": en.Seed, "prof": "crash", "cfg": cfg.Ev()})
	c := h.NewCrasher(e, en.Work+"/img")
	if cfg.IO == "mmap" {
		c.MaxImages = 40
	}
	if e.Open(cfg) != "ok" {
		c.Stop()
		c.Flush(nil)
		return
	}
	val := func() int {
		var n int
		switch x := r.Intn(20); {
		case x < 1:
			n = 0
		case x < 14:
			n = 1 + r.Intn(70)
		case x < 17:
			n = int(cfg.Limit/3) + r.Intn(40)
			if n > 40000 {
				n = 300
			}
		case x < 18:
			n = int(cfg.Limit) + r.Intn(30)
			if n > 40000 {
				n = 40000 + r.Intn(3000)
			}
		case x < 19:
			n = h.BlockSize - 40 + r.Intn(80) // ends near a block boundary
		default:
			n = h.BlockSize + 200 + r.Intn(h.BlockSize) // multi-block
			if r.Intn(3) == 0 {
				n = 2*h.BlockSize + 300 + r.Intn(3*h.BlockSize) // three to six blocks (an append of more than 64 KiB)
			}
		}
		id, _ := vs.New(n)
		return id
	}
	for i := 0; i < ops && !e.Dead; i++ {
		k := 1 + r.Intn(nkeys)
		c := r.Intn(100)
		if batchHeavy {
			c = 40 + r.Intn(60)
		}
		switch {
		case c < 45:
			e.Put(k, val())
		case c < 58:
			e.Delete(k)
		case c < 63:
			e.Sync()
		case c < 90:
			e.NewBatch(r.Intn(2) == 0)
			nb := 1 + r.Intn(5)
			for j := 0; j < nb && !e.Dead; j++ {
				if r.Intn(4) == 0 {
					e.BDelete(1 + r.Intn(nkeys))
				} else {
					e.BPut(1+r.Intn(nkeys), val())
				}
			}
			if !e.Dead {
				e.Commit()
			}
		case c < 95:
			if e.Close() != "ok" || e.Open(cfg) != "ok" {
				e.Dead = true
			}
		default:
			e.Put(k, val())
		}
	}
	if !e.Dead && e.DB != nil {
		e.Close()
	}
	c.Stop()
	obs := c.Explore(en.Thorough(), true, 5, stats)
	c.Flush(obs)
}
