package main

import (
	"sync"
	"sync/atomic"

	kv "github.com/XiXi-2024/xixi-kv"
	"verifharness/h"
)

// Profile mergerace (C06): the interleavings of client calls with the merge
// scan that the model explores (XiXiKV: client actions between MergeScan
// steps) are enumerated on the engine: for a small database, Merge runs in a
// goroutine and is parked by a blocking hook at its i-th scan step (before
// the liveness test, and before the rewrite), for every i; while it is
// parked the client performs one or two calls (Put / Delete / a batch on a
// key already scanned, the key under the cursor, a key not yet scanned);
// then the merge finishes, the database is restarted twice (adoption, then
// plain scan) and dumped each time. Every dump must equal the model.
func init() { profiles["mergerace"] = profMergeRace }

func profMergeRace(en *Env) {
	bases := 12 * en.Scale
	if en.Thorough() {
		bases = 40 * en.Scale
	}
	runs := 0
	for b := 0; b < bases; b++ {
		runs += mergeRaceBase(en, b)
	}
	en.Summary["runs"] = runs
}

type raceOp struct {
	op string
	k  int
}

func mergeRaceBase(en *Env, b int) int {
	r := en.R
	nkeys := 3
	limit := []int64{120, 250, 500, 4000}[b%4]
	index := h.IndexTypes[b%3]
	// the history whose records the merge will scan (same for every run of this base)
	type hop struct {
		del bool
		k   int
		n   int
	}
	var hist []hop
	for i := 0; i < 5+r.Intn(4); i++ {
		hist = append(hist, hop{del: r.Intn(5) == 0, k: 1 + r.Intn(nkeys), n: 10 + r.Intn(80)})
	}
	nrec := len(hist) + 1
	runs := 0
	points := []string{"merge.scan", "merge.rewrite"}
	clientOps := [][]raceOp{{{"Put", 1}}, {{"Delete", 1}}, {{"Put", 2}}, {{"Delete", 2}}, {{"Put", 3}, {"Delete", 1}}, {{"Batch", 2}}, {{"Delete", 3}, {"Put", 3}},
		// further Merge calls while the first one is parked (each must answer "in progress" and leave the running merge alone)
		{{"Merge", 0}, {"Merge", 0}}, {{"Merge", 0}, {"Delete", 1}, {"Delete", 2}, {"Merge", 0}}, {{"Merge", 0}, {"Put", 1}, {"Merge", 0}, {"Delete", 3}}}
	for _, point := range points {
		for at := 1; at <= nrec; at++ {
			for ci, cops := range clientOps {
				if !en.Thorough() && ci < 7 && (at+ci)%3 != 0 {
					continue // quick tier: a third of the grid of single-merge runs, every run with overlapping Merge calls
				}
				cfg := h.Cfg{Index: index, Shards: 4, IO: h.IOTypes[(at+ci)%2], Limit: limit, Sync: "no"}
				dir := en.FreshDir()
				u := h.SimpleKeys(nkeys, 6)
				vs := h.NewValues()
				e := h.NewEng(dir, en.Work+"/scratch", cfg, u, vs, en.T)
				en.T.Emit(h.Ev{"ev": "reset", "n": nkeys, "seed": en.Seed, "prof": "mergerace", "point": point, "at": at, "client": ci})
				if e.Open(cfg) != "ok" {
					en.Drop(dir)
					continue
				}
				for _, x := range hist {
					if x.del {
						e.Delete(x.k)
					} else {
						id, _ := vs.New(x.n)
						e.Put(x.k, id)
					}
				}
				e.Dump()
				// park the merge at its at-th arrival at the point
				var count int32
				arrived, release := make(chan struct{}), make(chan struct{})
				var once sync.Once
				kv.VerifPoint = func(name string, arg uint32) {
					if name == point && int(atomic.AddInt32(&count, 1)) == at {
						once.Do(func() { close(arrived); <-release })
					}
				}
				mergeErr := make(chan string, 1)
				go func() {
					mergeErr <- h.Guard(h.CallTimeout, func() error { return e.DB.Merge() })
				}()
				reached := false
				var merr string
				select {
				case <-arrived:
					reached = true
				case merr = <-mergeErr:
				}
				if !reached {
					kv.VerifPoint = nil // the merge is over: a client's own Merge must not be parked at the point
				}
				for _, c := range cops {
					switch c.op {
					case "Put":
						id, _ := vs.New(15 + r.Intn(40))
						e.Put(c.k, id)
					case "Delete":
						e.Delete(c.k)
					case "Merge":
						e.Merge()
					case "Batch":
						e.NewBatch(false)
						id, _ := vs.New(15 + r.Intn(40))
						e.BPut(c.k, id)
						e.BDelete(1)
						e.Commit()
					}
				}
				if reached {
					close(release)
					merr = <-mergeErr
				}
				kv.VerifPoint = nil
				e.T.Emit(h.Ev{"ev": "op", "op": "Merge", "k": 0, "v": 0, "n": 0, "a": 0, "res": 0, "err": merr})
				e.Dump()
				for i := 0; i < 2 && !e.Dead; i++ {
					if e.Close() != "ok" || e.Open(cfg) != "ok" {
						break
					}
					e.Dump()
				}
				if !e.Dead && e.DB != nil {
					h.WithoutCapture(func() { e.DB.Close() })
				}
				en.Drop(dir)
				runs++
			}
		}
	}
	return runs
}
