package h

import (
	"fmt"
	"os"
	"path/filepath"
	"sort"

	kv "github.com/XiXi-2024/xixi-kv"
)

// Crasher records the I/O calls of a running engine, takes a directory image
// at the entry of each of them ("the process dies before this call"), and
// afterwards reopens every image with the real Open - as is, and with the
// unsynced tail of a file cut - logging what the reopened database holds.
type Crasher struct {
	E       *Eng
	ImgRoot string
	buf     []Ev
	images  []*image
	// per data-directory file name: logical bytes written / known flushed, write end offsets
	written map[string]int64
	synced  map[string]int64
	wends   map[string][]int64
	isOpen  map[string]bool // data-directory files the engine currently holds open
	// merge-directory files (rewritten data files, hint file, marker): bytes written / known flushed
	mwritten  map[string]int64
	msynced   map[string]int64
	LabelCap  int
	labelSeen map[string]int
	// what to snapshot
	WithMerge  bool // also copy the merge directory
	PointsOnly bool // images only at named engine points and merge/adoption I/O (C07)
	MaxImages  int
	everyNth   int
	ioCount    int
	Busy       bool // inside a snapshot
}

type image struct {
	id                int
	at                int // number of buffered events when it was taken
	dir               string
	written           map[string]int64
	synced            map[string]int64
	wends             map[string][]int64
	phys              map[string]int64
	clean             bool
	label             string
	mwritten, msynced map[string]int64
}

func NewCrasher(e *Eng, imgRoot string) *Crasher {
	c := &Crasher{E: e, ImgRoot: imgRoot, written: map[string]int64{}, synced: map[string]int64{}, wends: map[string][]int64{}, isOpen: map[string]bool{}, labelSeen: map[string]int{}, MaxImages: 400, everyNth: 1,
		mwritten: map[string]int64{}, msynced: map[string]int64{}}
	e.T.Buf = &c.buf
	e.Split = true
	os.MkdirAll(imgRoot, 0755)
	SetIOHandler(c.handle)
	return c
}

func cp64(m map[string]int64) map[string]int64 {
	o := map[string]int64{}
	for k, v := range m {
		o[k] = v
	}
	return o
}

func (c *Crasher) handle(ev IOEv) {
	if c.Busy {
		return
	}
	if ev.Kind == "point" {
		if c.WithMerge {
			c.snapshot(ev.Path)
		}
		return
	}
	ref := RefOf(ev.Path, c.E.Dir)
	name := filepath.Base(ev.Path)
	inData := ref.D == 0 && ref.X == "data" // only data files are tracked: the hint file of the data directory is read-only (and never closed)
	if ev.Phase == 0 {
		if ev.Kind == "open" && inData {
			// the engine opens each file once per Open; what is on disk then is the file's logical
			// content (clean Close before, or a file just adopted from a merge)
			var sz int64
			if fi, err := os.Stat(ev.Path); err == nil {
				sz = fi.Size()
			}
			if old, seen := c.written[name]; !seen || old != sz {
				c.written[name] = sz
				c.synced[name] = sz
				c.wends[name] = []int64{0, sz}
			}
		}
		if !c.PointsOnly || ref.D == 1 || ref.X != "data" {
			c.ioCount++
			if c.ioCount%c.everyNth == 0 {
				c.snapshot(ev.Kind + ":" + name)
			}
		}
		return
	}
	// completed call
	n := ev.N
	if ref.D == 1 {
		// a file of the merge directory: what a power failure may take from it is what was written and not flushed
		switch ev.Kind {
		case "open":
			var sz int64
			if fi, err := os.Stat(ev.Path); err == nil {
				sz = fi.Size()
			}
			c.mwritten[name], c.msynced[name] = sz, sz
		case "write":
			c.mwritten[name] += ev.N
		case "sync":
			c.msynced[name] = c.mwritten[name]
		}
	}
	if inData {
		switch ev.Kind {
		case "close":
			c.isOpen[name] = false
		case "open":
			c.isOpen[name] = true
			n = c.written[name]
		case "write":
			c.written[name] += ev.N
			c.wends[name] = append(c.wends[name], c.written[name])
		case "sync":
			c.synced[name] = c.written[name]
		}
	}
	c.buf = append(c.buf, Ev{"ev": "io", "kind": ev.Kind, "d": ref.D, "x": ref.X, "f": ref.ID, "n": n})
}

// snapshot copies the data directory (logical prefixes, then extended to the
// physical size: that is what a dying process leaves) and the merge directory.
func (c *Crasher) snapshot(label string) {
	if len(c.images) >= c.MaxImages {
		return
	}
	if c.LabelCap > 0 {
		// the many equivalent images of a merge scan (unmarked merge directory growing record by record)
		// are sampled: the first few and then every 16th per label
		c.labelSeen[label]++
		if n := c.labelSeen[label]; n > c.LabelCap && n%16 != 0 {
			return
		}
	}
	c.Busy = true
	defer func() { c.Busy = false }()
	im := &image{id: len(c.images), at: len(c.buf), written: cp64(c.written), synced: cp64(c.synced), phys: map[string]int64{}, label: label, clean: true,
		wends: map[string][]int64{}, mwritten: cp64(c.mwritten), msynced: cp64(c.msynced)}
	for k, v := range c.wends {
		im.wends[k] = append([]int64(nil), v...)
	}
	im.dir = filepath.Join(c.ImgRoot, fmt.Sprintf("img%04d", im.id))
	sizes := map[string]int64{}
	names, physSizes := ListDir(c.E.Dir)
	for i, nme := range names {
		// a file the engine holds open has the logical size the interception has counted (under mmap its
		// physical size is the mapping size); a closed file is exactly what is on disk (it may have been
		// replaced by a rename since it was last open)
		if w, ok := c.written[nme]; ok && c.isOpen[nme] {
			sizes[nme] = w
			im.phys[nme] = physSizes[i]
			if physSizes[i] != w {
				im.clean = false
			}
		} else if ok {
			im.written[nme] = physSizes[i]
			im.synced[nme] = physSizes[i]
			im.phys[nme] = physSizes[i]
		}
	}
	if err := CopyImage(c.E.Dir, im.dir, sizes, nil); err != nil {
		return
	}
	if c.WithMerge {
		CopyImage(MergePath(c.E.Dir), MergePath(im.dir), nil, nil)
	}
	c.images = append(c.images, im)
}

// Snapshot takes an image now (for drivers that choose the crash instant themselves).
func (c *Crasher) Snapshot(label string) { c.snapshot(label) }

// Stop ends interception.
func (c *Crasher) Stop() { SetIOHandler(nil) }

// CutPlan lists the cut lengths to try for one file of an image.
func cutPlan(im *image, name string, thorough bool, budget int) []int64 {
	s, w := im.synced[name], im.written[name]
	if w <= s {
		return nil
	}
	set := map[int64]bool{s: true}
	var bounds []int64
	for _, b := range im.wends[name] {
		if b > s && b <= w {
			bounds = append(bounds, b)
		}
	}
	if thorough && w-s <= 3000 {
		for x := s; x < w; x++ {
			set[x] = true
		}
	} else {
		if len(bounds) > 10 && !thorough {
			bounds = append(bounds[:2], bounds[len(bounds)-8:]...)
		}
		for _, b := range bounds {
			for _, d := range []int64{0, -1, -3, -7, 1, 3, 7} {
				if x := b + d; x >= s && x < w {
					set[x] = true
				}
			}
			// multi-block writes: also the block boundaries inside the write
			for x := (s/32768 + 1) * 32768; x < b; x += 32768 {
				for _, d := range []int64{0, -1, 1, 7} {
					if y := x + d; y >= s && y < w {
						set[y] = true
					}
				}
			}
		}
	}
	var out []int64
	for x := range set {
		out = append(out, x)
	}
	sort.Slice(out, func(i, j int) bool { return out[i] < out[j] })
	if len(out) > budget {
		step := float64(len(out)) / float64(budget)
		var o2 []int64
		for i := 0; i < budget; i++ {
			o2 = append(o2, out[int(float64(i)*step)])
		}
		out = o2
	}
	return out
}

// reopen opens a prepared directory and logs a crashrec event.
func (c *Crasher) reopen(dir string, im *image, proc bool, cutf int, cut int64, cont bool, contKey int, level int, out *[]Ev) {
	e := c.E
	n := e.U.N()
	ev := Ev{"ev": "crashrec", "img": im.id, "label": im.label, "proc": proc, "cutf": cutf, "cut": cut, "clean": im.clean, "level": level}
	vals := make([]int, n)
	keys := []int{}
	var db *kv.DB
	open := Guard(CallTimeout, func() error {
		var err error
		db, err = kv.Open(e.Cfg.Options(dir))
		return err
	})
	geterr := "ok"
	cv := map[string]any{"did": false, "put": "ok", "reopen": "ok", "k": 0, "v": 0, "vals": []int{}}
	if open == "ok" {
		read := func(d *kv.DB, into []int) {
			for r := 1; r <= n; r++ {
				key := e.U.Key(r)
				var b []byte
				name := Guard(CallTimeout, func() error {
					var err error
					b, err = d.Get(key)
					return err
				})
				switch name {
				case "ok":
					into[r-1] = e.V.ID(b)
				case "notfound":
					into[r-1] = VNil
				default:
					into[r-1] = VErr
					geterr = name
				}
			}
		}
		read(db, vals)
		Guard(CallTimeout, func() error {
			for _, k := range db.ListKeys() {
				keys = append(keys, e.U.Rank(k))
			}
			return nil
		})
		if cont && geterr == "ok" {
			// continued run: a further write, a clean restart, a dump
			cv["did"] = true
			vid, vb := e.V.New(9 + im.id%40)
			cv["k"], cv["v"] = contKey, vid
			if c.WithMerge && im.id%3 == 2 {
				// merge/adoption crashes: the continued run deletes a key and merges again - whatever an
				// interrupted merge left behind must not come back through the next, successful merge
				cv["v"] = VNil
				cv["put"] = Guard(CallTimeout, func() error {
					if err := db.Delete(e.U.Key(contKey)); err != nil {
						return err
					}
					return db.Merge()
				})
			} else if im.id%2 == 0 {
				cv["put"] = Guard(CallTimeout, func() error { return db.Put(e.U.Key(contKey), vb) })
			} else {
				// the further write is a committed batch (a later batch must not revive the records
				// an interrupted batch left in the log)
				cv["put"] = Guard(CallTimeout, func() error {
					b := db.NewBatch(kv.BatchOptions{})
					if err := b.Put(e.U.Key(contKey), vb); err != nil {
						b.Commit()
						return err
					}
					return b.Commit()
				})
			}
			Guard(CallTimeout, func() error { return db.Close() })
			var db2 *kv.DB
			ro := Guard(CallTimeout, func() error {
				var err error
				db2, err = kv.Open(e.Cfg.Options(dir))
				return err
			})
			cv["reopen"] = ro
			v2 := make([]int, n)
			if ro == "ok" {
				ge := geterr
				read(db2, v2)
				if geterr != ge {
					cv["reopen"] = "geterr:" + geterr
					geterr = ge
				}
				Guard(CallTimeout, func() error { return db2.Close() })
			}
			cv["vals"] = v2
		} else {
			Guard(CallTimeout, func() error { return db.Close() })
		}
	}
	if keep := os.Getenv("VERIF_KEEP_FAILED"); keep != "" && open != "ok" && e.Cfg.IO == "std" && cutf < 0 {
		dst := filepath.Join(keep, fmt.Sprintf("img%d-l%d-%s", im.id, level, filepath.Base(dir)))
		CopyImage(dir, dst, nil, nil)
		CopyImage(MergePath(dir), MergePath(dst), nil, nil)
	}
	ev["open"], ev["vals"], ev["keys"], ev["geterr"], ev["cont"] = open, vals, keys, geterr, cv
	*out = append(*out, ev)
}

// prepare copies an image into a run directory, optionally cutting one file.
func (c *Crasher) prepare(im *image, run string, cutName string, cut int64) {
	os.RemoveAll(run)
	os.RemoveAll(MergePath(run))
	CopyImage(im.dir, run, nil, nil)
	if c.WithMerge {
		CopyImage(MergePath(im.dir), MergePath(run), nil, nil)
	}
	for name, phys := range im.phys {
		p := filepath.Join(run, name)
		if name == cutName {
			os.Truncate(p, cut)
		}
		// what a dying process leaves under mmap: the file at its extended size, zero beyond the data
		// (a standard-I/O file simply ends where the surviving data ends)
		if fi, err := os.Stat(p); err == nil && phys > im.written[name] && fi.Size() < phys {
			os.Truncate(p, phys)
		}
	}
}

// Explore reopens every image (process death, then power-loss cuts) and
// returns, per image position, the crashrec events to insert.
func (c *Crasher) Explore(thorough bool, powerLoss bool, contEvery int, stats map[string]int) map[int][]Ev {
	res := map[int][]Ev{}
	run := filepath.Join(c.ImgRoot, "run")
	cnt := 0
	WithoutCapture(func() {
		for _, im := range c.images {
			var out []Ev
			c.prepare(im, run, "", 0)
			cnt++
			c.reopen(run, im, true, -1, 0, contEvery > 0 && cnt%contEvery == 0, 1+im.id%c.E.U.N(), 1, &out)
			stats["proc_images"]++
			if powerLoss {
				names := []string{}
				for name := range im.written {
					names = append(names, name)
				}
				sort.Strings(names)
				for _, name := range names {
					budget := 24
					if thorough {
						budget = 400
					}
					for _, cut := range cutPlan(im, name, thorough, budget) {
						c.prepare(im, run, name, cut)
						cnt++
						ref := RefOf(filepath.Join(c.E.Dir, name), c.E.Dir)
						c.reopen(run, im, false, ref.ID, cut, contEvery > 0 && cnt%contEvery == 0, 1+int(cut)%c.E.U.N(), 1, &out)
						stats["cut_images"]++
					}
				}
			}
			if powerLoss && c.WithMerge && c.E.Cfg.IO == "std" {
				// power failure: a file of the merge directory keeps any length between what was flushed and what
				// was written (the rewritten files and the hint file must be durable before the marker is)
				mnames := []string{}
				for name := range im.mwritten {
					mnames = append(mnames, name)
				}
				sort.Strings(mnames)
				for _, name := range mnames {
					sy, wr := im.msynced[name], im.mwritten[name]
					mp := filepath.Join(MergePath(im.dir), name)
					if fi, err := os.Stat(mp); err != nil || fi.Size() != wr || wr <= sy {
						continue // not part of this image, or nothing unflushed
					}
					for _, cut := range []int64{sy, sy + (wr-sy)/2, wr - 1} {
						if cut < sy || cut >= wr {
							continue
						}
						c.prepare(im, run, "", 0)
						os.Truncate(filepath.Join(MergePath(run), name), cut)
						cnt++
						lbl := im.label
						im.label = "mcut:" + name + "@" + lbl
						c.reopen(run, im, false, -1, 0, contEvery > 0 && cnt%contEvery == 0, 1+int(cut)%c.E.U.N(), 1, &out)
						im.label = lbl
						stats["merge_cut_images"]++
					}
				}
			}
			res[im.at] = append(res[im.at], out...)
			os.RemoveAll(im.dir)
			os.RemoveAll(MergePath(im.dir))
		}
		os.RemoveAll(run)
		os.RemoveAll(MergePath(run))
	})
	return res
}

// Flush writes the buffered events with the crash observations inserted.
func (c *Crasher) Flush(obs map[int][]Ev) {
	t := c.E.T
	t.Buf = nil
	for i := 0; i <= len(c.buf); i++ {
		for _, ev := range obs[i] {
			t.Emit(ev)
		}
		if i < len(c.buf) {
			t.Emit(c.buf[i])
		}
	}
	c.buf = nil
}

// ---------------------------------------------------------------- merge / adoption crashes (C07)

// nestedImages reopens dir with interception on, copying dir and its merge
// directory at every I/O call and named point of that Open (a second crash,
// during the retry); it returns the image directories taken.
func (c *Crasher) nestedImages(dir string, root string) (string, []string) {
	var imgs []string
	busy := false
	hnd := func(ev IOEv) {
		if busy || ev.Phase != 0 || len(imgs) >= 60 {
			return
		}
		if ev.Kind != "point" {
			ref := RefOf(ev.Path, dir)
			if ref.D == 0 && ref.X == "data" && ev.Kind != "open" {
				return
			}
		}
		busy = true
		d := filepath.Join(root, fmt.Sprintf("n%03d", len(imgs)))
		os.RemoveAll(d)
		os.RemoveAll(MergePath(d))
		// during Open no data has been written yet: logical = the sizes the files had (std I/O)
		CopyImage(dir, d, nil, nil)
		CopyImage(MergePath(dir), MergePath(d), nil, nil)
		imgs = append(imgs, d)
		busy = false
	}
	hookMu.Lock()
	old := ioHandler
	ioHandler = hnd
	hookMu.Unlock()
	oldc := capturing.Swap(true)
	var db *kv.DB
	name := Guard(CallTimeout, func() error {
		var err error
		db, err = kv.Open(c.E.Cfg.Options(dir))
		return err
	})
	capturing.Store(oldc)
	hookMu.Lock()
	ioHandler = old
	hookMu.Unlock()
	if db != nil {
		Guard(CallTimeout, func() error { return db.Close() })
	}
	return name, imgs
}

// sameSizes reports whether every file of image directory d (and of its merge directory) has the size the
// file of that name has in the image ref the reopening started from (adoption moves files from the merge
// directory into the data directory under the same name, so either place counts).
func sameSizes(d, ref string) bool {
	want := map[string]map[int64]bool{}
	for _, r := range []string{ref, MergePath(ref)} {
		names, sizes := ListDir(r)
		for i, n := range names {
			if want[n] == nil {
				want[n] = map[int64]bool{}
			}
			want[n][sizes[i]] = true
		}
	}
	for _, r := range []string{d, MergePath(d)} {
		names, sizes := ListDir(r)
		for i, n := range names {
			if w, ok := want[n]; ok && !w[sizes[i]] {
				return false
			} else if !ok && sizes[i] > 0 { // a file created by the retry (Open writes nothing: it can only be an extended empty file)
				return false
			}
		}
	}
	return true
}

// ExploreMerge reopens every image taken during Merge and during the adopting
// Open: as is (and once more after a clean restart), with the recursive
// removal of the merge directory interrupted at every point, and - two
// levels deep - with a second crash at every step of the retry.
func (c *Crasher) ExploreMerge(thorough bool, stats map[string]int) map[int][]Ev {
	res := map[int][]Ev{}
	run := filepath.Join(c.ImgRoot, "run")
	nroot := filepath.Join(c.ImgRoot, "nested")
	WithoutCapture(func() {
		for _, im := range c.images {
			var out []Ev
			variants := [][]string{nil}
			if im.label == "merge.rmold2" || im.label == "adopt.rmdir" {
				names, _ := ListDir(MergePath(im.dir))
				for i := range names {
					variants = append(variants, []string{names[i]}) // one file gone
					variants = append(variants, names[:i+1])        // removal interrupted after i+1 files
					variants = append(variants, names[i:])          // ... in the other order
				}
			}
			for vi, rm := range variants {
				c.prepare(im, run, "", 0)
				for _, nme := range rm {
					os.Remove(filepath.Join(MergePath(run), nme))
				}
				// level 2: a second crash at every step of this reopening - only where the reopening has an
				// adoption to run (a marked merge directory); otherwise Open performs no file-system change
				_, merr := os.Stat(filepath.Join(MergePath(run), "000000000.merge-finished"))
				if merr == nil && (vi == 0 || thorough) {
					os.RemoveAll(nroot)
					work := filepath.Join(c.ImgRoot, "run2")
					os.RemoveAll(work)
					os.RemoveAll(MergePath(work))
					CopyImage(run, work, nil, nil)
					CopyImage(MergePath(run), MergePath(work), nil, nil)
					_, imgs := c.nestedImages(work, nroot)
					for _, d := range imgs {
						// a file the interrupted retry had already opened is extended to the mapping size under mmap:
						// such an image is not "clean" even if the image the retry started from was
						im2 := &image{id: im.id, label: im.label + "/retry", clean: im.clean && sameSizes(d, run), phys: map[string]int64{}}
						c.reopen(d, im2, true, -1, 0, stats["level2_images"]%3 == 0, 1+im.id%c.E.U.N(), 2, &out)
						stats["level2_images"]++
						os.RemoveAll(d)
						os.RemoveAll(MergePath(d))
					}
					os.RemoveAll(work)
					os.RemoveAll(MergePath(work))
				}
				lbl := *im
				if len(rm) > 0 {
					lbl.label = im.label + "/partial-rm"
					stats["partial_rm_images"]++
				}
				c.reopen(run, &lbl, true, -1, 0, true, 1+im.id%c.E.U.N(), 1, &out)
				stats["level1_images"]++
			}
			res[im.at] = append(res[im.at], out...)
			os.RemoveAll(im.dir)
			os.RemoveAll(MergePath(im.dir))
		}
		os.RemoveAll(run)
		os.RemoveAll(MergePath(run))
		os.RemoveAll(nroot)
	})
	return res
}
