package h

import (
	"encoding/binary"
	"github.com/XiXi-2024/xixi-kv/datafile"
	"math/rand"
)

// Step is one abstract step of a script.
type Step struct {
	Op string // Put Delete Get NewBatch BPut BDelete BGet Commit Sync Merge Close Open Reopen
	K  int    // key rank (0 = the empty key)
	V  int    // value identity
	A  int    // extra argument (NewBatch: sync flag)
	C  *Cfg   // Open: configuration
}

// Do executes one step on the engine and logs it.
func (e *Eng) Do(s Step) string {
	switch s.Op {
	case "Put":
		return e.Put(s.K, s.V)
	case "Delete":
		return e.Delete(s.K)
	case "Get":
		_, n := e.Get(s.K)
		return n
	case "NewBatch":
		e.NewBatch(s.A == 1)
		return "ok"
	case "BPut":
		return e.BPut(s.K, s.V)
	case "BDelete":
		return e.BDelete(s.K)
	case "BGet":
		_, n := e.BGet(s.K)
		return n
	case "Commit":
		return e.Commit()
	case "Sync":
		return e.Sync()
	case "Merge":
		return e.Merge()
	case "Close":
		return e.Close()
	case "Open":
		return e.Open(*s.C)
	}
	panic("unknown step " + s.Op)
}

// ---- record geometry (mirrors datafile's encoding; used only to aim value
// lengths at block boundaries, never as an oracle)

const (
	BlockSize = 32768
	ChunkHdr  = 7
)

func varintLen(x int64) int {
	var b [binary.MaxVarintLen64]byte
	return binary.PutVarint(b[:], x)
}

// RecLen is the encoded length of a plain record.
func RecLen(klen, vlen int) int {
	return 1 + varintLen(int64(klen)) + varintLen(int64(vlen)) + 1 + klen + vlen
}

// VlenForEnd returns a value length such that a single-chunk record written at
// file offset off ends at file offset end (or -1 if impossible).
func VlenForEnd(off int64, klen int, end int64) int {
	blockOff := off % BlockSize
	if blockOff+ChunkHdr >= BlockSize {
		off += BlockSize - blockOff
	}
	for v := int(end-off) - ChunkHdr - klen - 4; v >= 0 && v >= int(end-off)-ChunkHdr-klen-12; v-- {
		if off+int64(ChunkHdr+RecLen(klen, v)) == end {
			return v
		}
	}
	return -1
}

// PickLen chooses a value length of a seeded size class; off is the current
// end offset of the active file, limit the DataFileSize.
func PickLen(r *rand.Rand, off int64, klen int, limit int64) int {
	switch c := r.Intn(100); {
	case c < 8:
		return 0
	case c < 30:
		return 1 + r.Intn(20)
	case c < 55:
		return 20 + r.Intn(300)
	case c < 75: // aim the record end at a block boundary +- 9
		next := (off/BlockSize + 1) * BlockSize
		if v := VlenForEnd(off, klen, next+int64(r.Intn(19)-9)); v >= 0 {
			return v
		}
		return r.Intn(100)
	case c < 85: // two to four blocks
		return BlockSize + r.Intn(3*BlockSize)
	case c < 89 && off > 0 && limit-off > 64 && limit <= 1<<21:
		// the largest value that the engine's own size estimate still lets into the current file (and one more: the
		// smallest that makes it rotate) - whatever the estimate is, the file must not outgrow the limit
		lo, hi := 0, int(limit)
		for lo < hi {
			m := (lo + hi + 1) / 2
			if off+int64(datafile.GetLogRecordDiskSize(klen, m)) <= limit {
				lo = m
			} else {
				hi = m - 1
			}
		}
		return lo + r.Intn(2)
	case c < 93: // around the file-size limit
		if limit < 400000 {
			v := int(limit) - 64 + r.Intn(128)
			if v < 0 {
				v = 0
			}
			return v
		}
		return r.Intn(2000)
	default: // multiples of the chunk payload
		return (1+r.Intn(3))*(BlockSize-ChunkHdr) - 20 + r.Intn(40)
	}
}
