package h

import (
	"bufio"
	"encoding/json"
	"os"
	"sync"
)

// Ev is one NDJSON trace event. Every event kind has a fixed schema (TLC's
// Json module throws on a missing field), so builders fill all fields.
type Ev map[string]any

type Trace struct {
	mu sync.Mutex
	f  *os.File
	w  *bufio.Writer
	N  int // events written

	// Buf, when non-nil, collects events in memory instead of writing them
	// (crash profiles insert observations at earlier positions before flushing).
	Buf *[]Ev
}

func NewTrace(path string) (*Trace, error) {
	f, err := os.OpenFile(path, os.O_CREATE|os.O_WRONLY|os.O_APPEND, 0644)
	if err != nil {
		return nil, err
	}
	return &Trace{f: f, w: bufio.NewWriterSize(f, 1<<16)}, nil
}

// Emit writes one event and flushes it, so that a driver that dies leaves a
// trace ending exactly at the last completed event.
func (t *Trace) Emit(e Ev) {
	t.mu.Lock()
	defer t.mu.Unlock()
	if t.Buf != nil {
		*t.Buf = append(*t.Buf, e)
		return
	}
	b, err := json.Marshal(e)
	if err != nil {
		panic(err)
	}
	t.w.Write(b)
	t.w.WriteByte('\n')
	t.w.Flush()
	t.N++
}

func (t *Trace) Close() {
	t.mu.Lock()
	defer t.mu.Unlock()
	t.w.Flush()
	t.f.Close()
}

// Ints returns a non-nil slice (JSON [] rather than null, which TLC rejects).
func Ints(a []int) []int {
	if a == nil {
		return []int{}
	}
	return a
}
