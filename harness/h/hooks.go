package h

import (
	"path/filepath"
	"strconv"
	"strings"
	"sync"
	"sync/atomic"

	kv "github.com/XiXi-2024/xixi-kv"
	"github.com/XiXi-2024/xixi-kv/fio"
)

// IOEv is one intercepted I/O call boundary (phase 0 = about to happen,
// phase 1 = completed) or one named engine point (Kind "point").
type IOEv struct {
	Phase int
	Kind  string // open write sync close truncate | point
	Path  string // file path (I/O) or point name
	N     int64  // bytes written / truncate target / point argument
}

var (
	capturing atomic.Bool
	hookMu    sync.Mutex
	ioHandler func(IOEv)
)

// InstallHooks connects the engine's verif hooks to the current handler.
func InstallHooks() {
	fio.VerifIO = func(phase int, kind, name string, n int64) {
		if !capturing.Load() {
			return
		}
		hookMu.Lock()
		hnd := ioHandler
		hookMu.Unlock()
		if hnd != nil {
			hnd(IOEv{phase, kind, name, n})
		}
	}
	kv.VerifPoint = func(name string, arg uint32) {
		if !capturing.Load() {
			return
		}
		hookMu.Lock()
		hnd := ioHandler
		hookMu.Unlock()
		if hnd != nil {
			hnd(IOEv{0, "point", name, int64(arg)})
		}
	}
}

// SetIOHandler installs the handler and switches capturing on (nil: off).
func SetIOHandler(hnd func(IOEv)) {
	hookMu.Lock()
	ioHandler = hnd
	hookMu.Unlock()
	capturing.Store(hnd != nil)
}

// WithoutCapture runs fn (an observation) with interception switched off, so
// that the harness's own file accesses are not mistaken for the engine's.
func WithoutCapture(fn func()) {
	old := capturing.Swap(false)
	defer capturing.Store(old)
	fn()
}

// FileRef names a file of the data directory or of the merge directory in
// a trace: d = 0 data dir, 1 merge dir; x = data | hint | fin | other; id = file id.
type FileRef struct {
	D  int
	X  string
	ID int
}

func RefOf(path, dataDir string) FileRef {
	d := 0
	dir := filepath.Dir(path)
	if filepath.Clean(dir) != filepath.Clean(dataDir) {
		d = 1
	}
	base := filepath.Base(path)
	ext := filepath.Ext(base)
	id, err := strconv.Atoi(strings.TrimSuffix(base, ext))
	if err != nil {
		id = -1
	}
	x := "other"
	switch ext {
	case ".data":
		x = "data"
	case ".hint":
		x = "hint"
	case ".merge-finished":
		x = "fin"
	}
	return FileRef{d, x, id}
}
