package h

import (
	"encoding/json"
	"math/rand"
	"os"
)

var (
	IndexTypes = []string{"btree", "skiplist", "hashmap"}
	ShardNums  = []int{1, 2, 3, 16, 1024, 5000}
	IOTypes    = []string{"std", "mmap"}
	SyncKinds  = []string{"no", "always", "threshold"}
)

// RandCfg draws a configuration; limits is the set of DataFileSize choices.
func RandCfg(r *rand.Rand, limits []int64) Cfg {
	c := Cfg{
		Index:  IndexTypes[r.Intn(len(IndexTypes))],
		Shards: ShardNums[r.Intn(len(ShardNums))],
		IO:     IOTypes[r.Intn(len(IOTypes))],
		Limit:  limits[r.Intn(len(limits))],
		Sync:   SyncKinds[r.Intn(len(SyncKinds))],
	}
	if c.Sync == "threshold" {
		c.BPS = []uint{1, 64, 4096}[r.Intn(3)]
	}
	return c
}

// CoverCfg returns the i-th configuration of a sequence that cycles through
// every index type and both I/O types quickly, the rest seeded.
func CoverCfg(r *rand.Rand, i int, limits []int64) Cfg {
	c := RandCfg(r, limits)
	c.Index = IndexTypes[i%3]
	c.IO = IOTypes[(i/3)%2]
	return c
}

func WriteJSON(path string, v any) {
	b, _ := json.MarshalIndent(v, "", " ")
	os.WriteFile(path, b, 0644)
}
