package h

import (
	"bytes"
	"crypto/sha1"
	"encoding/hex"
	"errors"
	"fmt"
	"hash"
	"io"
	"os"
	"path/filepath"
	"runtime"
	"sort"
	"strconv"
	"strings"
	"sync"
	"syscall"
	"time"

	kv "github.com/XiXi-2024/xixi-kv"
	"github.com/XiXi-2024/xixi-kv/datafile"
	"github.com/XiXi-2024/xixi-kv/fio"
	"github.com/XiXi-2024/xixi-kv/index"
)

// Cfg is one engine configuration.
type Cfg struct {
	Index  string // btree | skiplist | hashmap
	Shards int
	IO     string // std | mmap
	Limit  int64
	Sync   string // no | always | threshold
	BPS    uint
}

func (c Cfg) Options(dir string) kv.Options {
	o := kv.DefaultOptions
	o.DirPath = dir
	o.DataFileSize = c.Limit
	o.ShardNum = c.Shards
	o.BytesPerSync = c.BPS
	o.DataFileMergeRatio = 0
	switch c.Index {
	case "btree":
		o.IndexType = index.BTree
	case "skiplist":
		o.IndexType = index.SkipList
	default:
		o.IndexType = index.HashMap
	}
	if c.IO == "mmap" {
		o.FileIOType = fio.MemoryMap
	} else {
		o.FileIOType = fio.StandardFIO
	}
	switch c.Sync {
	case "always":
		o.SyncStrategy = kv.Always
	case "threshold":
		o.SyncStrategy = kv.Threshold
	default:
		o.SyncStrategy = kv.No
	}
	return o
}

func (c Cfg) Ev() map[string]any {
	return map[string]any{"index": c.Index, "shards": c.Shards, "io": c.IO, "limit": c.Limit, "sync": c.Sync, "bps": c.BPS}
}

func (c Cfg) String() string {
	return fmt.Sprintf("%s/%d/%s/L%d/%s/%d", c.Index, c.Shards, c.IO, c.Limit, c.Sync, c.BPS)
}

// ErrName maps engine errors to the short names used in traces.
func ErrName(err error) string {
	switch {
	case err == nil:
		return "ok"
	case errors.Is(err, kv.ErrKeyNotFound):
		return "notfound"
	case errors.Is(err, kv.ErrKeyIsEmpty):
		return "keyempty"
	case errors.Is(err, kv.ErrBatchCommitted):
		return "batchcommitted"
	case errors.Is(err, kv.ErrDatabaseIsUsing):
		return "inuse"
	case errors.Is(err, kv.ErrMergeIsProgress):
		return "merging"
	case errors.Is(err, kv.ErrNoEnoughSpaceForMerge):
		return "nospace"
	case errors.Is(err, kv.ErrMergeRatioUnreached):
		return "ratio"
	case errors.Is(err, kv.ErrIndexUpdateFailed):
		return "indexfail"
	case errors.Is(err, kv.ErrDataFileNotFound):
		return "nofile"
	case errors.Is(err, datafile.ErrInvalidCRC):
		return "crc"
	case errors.Is(err, datafile.ErrClosed):
		return "closed"
	case errors.Is(err, io.EOF):
		return "eof"
	}
	return "err:" + err.Error()
}

// Guard runs fn converting a panic into an error name and a hang into
// "stuck" (with a goroutine dump on stderr). Time never decides a verdict
// other than "stuck", whose timeout is generous.
func Guard(timeout time.Duration, fn func() error) (name string) {
	done := make(chan string, 1)
	job := func() {
		defer func() {
			if r := recover(); r != nil {
				buf := make([]byte, 1<<14)
				n := runtime.Stack(buf, false)
				fmt.Fprintf(os.Stderr, "PANIC in engine call: %v\n%s\n", r, buf[:n])
				done <- "panic"
			}
		}()
		done <- ErrName(fn())
	}
	// all engine calls of sequential drivers run on one long-lived goroutine, as they would in an ordinary
	// single-threaded program (object pools are per-P: a goroutine per call would hide pool reuse)
	workerMu.Lock()
	if worker == nil {
		worker = make(chan func())
		go func(w chan func()) {
			for f := range w {
				f()
			}
		}(worker)
	}
	w := worker
	workerMu.Unlock()
	select {
	case w <- job:
	default:
		// the worker is busy (a call parked by a schedule gate, or a concurrent driver): run this call on its own goroutine
		go job()
	}
	deadline := After(timeout)
	tick := time.NewTicker(100 * time.Millisecond)
	defer tick.Stop()
	for {
		select {
		case s := <-done:
			return s
		case <-tick.C:
			// a call that allocates gigabytes is a runaway loop (e.g. a writer that makes no progress):
			// it is reported like a hang before the machine runs out of memory
			var ms runtime.MemStats
			runtime.ReadMemStats(&ms)
			if ms.HeapAlloc > RunawayBytes {
				fmt.Fprintf(os.Stderr, "STUCK engine call: runaway allocation (%d MiB)\n", ms.HeapAlloc>>20)
				return "stuck"
			}
		case <-deadline:
			buf := make([]byte, 1<<20)
			n := runtime.Stack(buf, true)
			fmt.Fprintf(os.Stderr, "STUCK engine call; goroutines:\n%s\n", buf[:n])
			workerMu.Lock()
			worker = nil
			workerMu.Unlock()
			return "stuck"
		}
	}
}

var (
	workerMu sync.Mutex
	worker   chan func()
)

// Stopwatch measures the time this process has been seen running: a gap of more than 200 ms between two readings
// (machine suspended or starved) is not counted.
type Stopwatch struct {
	last time.Time
	acc  time.Duration
}

func NewStopwatch() *Stopwatch { return &Stopwatch{last: time.Now()} }

func (w *Stopwatch) Elapsed() time.Duration {
	now := time.Now()
	if d := now.Sub(w.last); d < 200*time.Millisecond {
		w.acc += d
	}
	w.last = now
	return w.acc
}

// After is time.After for watchdogs: it counts d in 50 ms ticks that this process has actually seen, so that a
// suspended or starved machine (a snapshot of the sandbox, a frozen VM: the clock jumps, a plain timer fires at
// once on resume) does not turn into a "stuck" verdict - a tick that was missed is not counted.
func After(d time.Duration) <-chan struct{} {
	ch := make(chan struct{})
	go func() {
		n := int(d / (50 * time.Millisecond))
		if n < 1 {
			n = 1
		}
		t := time.NewTicker(50 * time.Millisecond)
		defer t.Stop()
		last := time.Now()
		for i := 0; i < n; {
			<-t.C
			now := time.Now()
			if now.Sub(last) < 500*time.Millisecond {
				i++ // (a gap of more than ten periods means this process did not run: that time is not counted)
			}
			last = now
		}
		close(ch)
	}()
	return ch
}

// RunawayBytes is the heap size beyond which a call in flight counts as stuck.
var RunawayBytes uint64 = 6 << 30

// ExitIfStuck ends the driver after a hung or runaway call has been logged: the
// goroutine stuck inside the engine cannot be stopped, so no further trace can be recorded.
func ExitIfStuck(name string, t *Trace) {
	if name == "stuck" {
		t.Close()
		os.Exit(0)
	}
}

const CallTimeout = 60 * time.Second

// Rec is one record found by scanning a data file with the package's reader.
type Rec struct {
	F, B, O, S int // file, block, offset, size
	T          int // 0 put, 1 delete, 2 batch-finished
	K          int // key rank (-1 foreign; 0 for batch-finished records)
	V          int // value identity
	BT         int // batch small id (0 = not in a batch)
}

func (r Rec) Ev() map[string]any {
	return map[string]any{"f": r.F, "b": r.B, "o": r.O, "s": r.S, "t": r.T, "k": r.K, "v": r.V, "bt": r.BT}
}

// Eng wraps one database directory for sequential drivers.
type Eng struct {
	Dir     string
	Scratch string
	Cfg     Cfg
	DB      *kv.DB
	U       *Keys
	V       *Values
	T       *Trace
	Batch   *kv.Batch

	batchIDs map[uint64]int
	seen     map[int]int // file id -> records already reported
	rescan   bool
	Dead     bool // a call panicked or hung: the trace must end

	tx hash.Hash // digest of every result the engine returned (C14)

	// hostile-caller mode (C15): one key buffer and one value buffer are reused
	// for every call and scribbled over after each return
	Split bool // crash / sync traces: "call" and "ret" events around the I/O events of a call

	Hostile  bool
	gets     int
	kbuf     []byte
	vbuf     []byte
	kshadow  []byte
	vshadow  []byte
	retained []retainedSlice
	Canaries int

	sharedVals map[int][]byte
}

type retainedSlice struct {
	got  []byte // the slice Get returned
	copy []byte // what it held when it was returned
}

// TxDigest returns the digest of everything the engine has returned so far.
func (e *Eng) TxDigest() string { return hex.EncodeToString(e.tx.Sum(nil)) }

func (e *Eng) txf(format string, a ...any) {
	fmt.Fprintf(e.tx, format, a...)
	if TxLog != nil { // (development aid: the transcript in clear)
		fmt.Fprintf(TxLog, "%s: "+format+"\n", append([]any{e.Cfg.String()}, a...)...)
	}
}

// TxLog, when set (VERIF_TXLOG=<file>), receives every transcript entry in clear.
var TxLog io.Writer

func init() {
	if p := os.Getenv("VERIF_TXLOG"); p != "" {
		if f, err := os.Create(p); err == nil {
			TxLog = f
		}
	}
}

// args returns the key and value slices to pass to the engine.
func (e *Eng) args(rank, vid int) (key, val []byte) {
	key = []byte{}
	if rank > 0 {
		key = e.U.Key(rank)
	}
	if !e.Hostile {
		// an ordinary caller: the same value may be passed again later from the very same slice
		// (it never modifies it, and expects the database not to either)
		if vid != VNil {
			val = e.shared(vid)
		}
		return key, val
	}
	if vid != VNil {
		val = e.V.Bytes(vid)
	}
	if e.kbuf != nil && (len(key) > len(e.kbuf) || len(val) > len(e.vbuf)) {
		// the caller moves to larger buffers (the old ones are checked one last time)
		e.checkCallerBuffers()
		e.kbuf = nil
	}
	if e.kbuf == nil {
		e.kbuf = make([]byte, max(64, 2*len(key)))
		e.vbuf = make([]byte, max(1<<18, 2*len(val)))
		e.kshadow = append([]byte(nil), e.kbuf...)
		e.vshadow = append([]byte(nil), e.vbuf...)
	}
	e.checkCallerBuffers()
	copy(e.kbuf, key)
	copy(e.vbuf, val)
	return e.kbuf[:len(key)], e.vbuf[:len(val)]
}

// shared returns the one slice this caller uses for value vid in every call.
func (e *Eng) shared(vid int) []byte {
	if e.sharedVals == nil {
		e.sharedVals = map[int][]byte{}
	}
	b, ok := e.sharedVals[vid]
	if !ok {
		b = e.V.Bytes(vid)
		e.sharedVals[vid] = b
	}
	return b
}

func (e *Eng) checkCallerBuffers() {
	ok := bytes.Equal(e.kbuf, e.kshadow) && bytes.Equal(e.vbuf, e.vshadow)
	e.Canaries++
	if !ok {
		e.T.Emit(Ev{"ev": "note", "check": "caller_intact", "ok": false})
	}
}

// scribble overwrites the caller's buffers after a call returned.
func (e *Eng) scribble() {
	if !e.Hostile || e.kbuf == nil {
		return
	}
	for i := range e.kbuf {
		e.kbuf[i] = 0xEE
	}
	n := 4096 + len(e.vbuf)/64
	for i := 0; i < n && i < len(e.vbuf); i++ {
		e.vbuf[i] = 0xEE
	}
	for i := len(e.vbuf) - 64; i < len(e.vbuf); i++ {
		e.vbuf[i] = 0xEE
	}
	for i := 0; i < len(e.vbuf); i += 997 {
		e.vbuf[i] = 0xEE
	}
	copy(e.kshadow, e.kbuf)
	copy(e.vshadow, e.vbuf)
	e.checkReturned()
}

func (e *Eng) checkReturned() {
	ok := true
	for _, r := range e.retained {
		if !bytes.Equal(r.got, r.copy) {
			ok = false
		}
	}
	e.Canaries++
	if !ok {
		e.T.Emit(Ev{"ev": "note", "check": "returned_intact", "ok": false})
	}
}

func (e *Eng) retain(b []byte) {
	if !e.Hostile || len(b) == 0 {
		return
	}
	if len(e.retained) >= 64 {
		e.retained = e.retained[1:]
	}
	e.retained = append(e.retained, retainedSlice{got: b, copy: append([]byte(nil), b...)})
}

func NewEng(dir, scratch string, cfg Cfg, u *Keys, v *Values, t *Trace) *Eng {
	return &Eng{Dir: dir, Scratch: scratch, Cfg: cfg, U: u, V: v, T: t,
		batchIDs: map[uint64]int{}, seen: map[int]int{}, rescan: true, tx: sha1.New()}
}

func (e *Eng) BatchSmallID(id uint64) int {
	if id == 0 {
		return 0
	}
	if s, ok := e.batchIDs[id]; ok {
		return s
	}
	s := len(e.batchIDs) + 1
	e.batchIDs[id] = s
	return s
}

// begin logs the start of a call in split mode (crash / sync traces: the I/O
// events of the call lie between its "call" and its "ret" event).
func (e *Eng) begin(op string, k, v, n, a int) {
	if e.Split {
		e.T.Emit(Ev{"ev": "call", "op": op, "k": k, "v": v, "n": n, "a": a})
	}
}

func (e *Eng) op(op string, k, v, n, a int, res int, err string) {
	if err == "panic" || err == "stuck" {
		e.Dead = true
	}
	e.txf("%s %d %d %s|", op, k, res, err)
	if e.Split {
		e.T.Emit(Ev{"ev": "ret", "op": op, "k": k, "res": res, "err": err})
	} else {
		e.T.Emit(Ev{"ev": "op", "op": op, "k": k, "v": v, "n": n, "a": a, "res": res, "err": err})
	}
	if err == "stuck" && e.T.Buf == nil {
		ExitIfStuck(err, e.T)
	}
	e.scribble()
}

// run executes one engine call between its begin and end events.
func (e *Eng) run(op string, k, v, n, a int, fn func() (int, error)) (int, string) {
	e.begin(op, k, v, n, a)
	res := 0
	name := Guard(CallTimeout, func() error {
		r, err := fn()
		res = r
		return err
	})
	e.op(op, k, v, n, a, res, name)
	return res, name
}

func (e *Eng) Open(cfg Cfg) string {
	e.Cfg = cfg
	if e.Split {
		e.T.Emit(Ev{"ev": "call", "op": "Open", "k": 0, "v": 0, "n": 0, "a": 0, "cfg": cfg.Ev()})
	}
	var db *kv.DB
	name := Guard(CallTimeout, func() error {
		var err error
		db, err = kv.Open(cfg.Options(e.Dir))
		return err
	})
	if name == "ok" {
		e.DB = db
	}
	e.rescan = true
	if e.Split {
		e.T.Emit(Ev{"ev": "ret", "op": "Open", "k": 0, "res": 0, "err": name})
	} else {
		e.T.Emit(Ev{"ev": "op", "op": "Open", "k": 0, "v": 0, "n": 0, "a": 0, "res": 0, "err": name, "cfg": cfg.Ev()})
	}
	if name == "panic" || name == "stuck" {
		e.Dead = true
	}
	return name
}

func (e *Eng) Close() string {
	_, name := e.run("Close", 0, 0, 0, 0, func() (int, error) { return 0, e.DB.Close() })
	if name == "ok" {
		e.DB = nil
	}
	return name
}

func (e *Eng) Put(rank int, vid int) string {
	key, val := e.args(rank, vid)
	_, name := e.run("Put", rank, vid, len(val), 0, func() (int, error) { return 0, e.DB.Put(key, val) })
	return name
}

func (e *Eng) Delete(rank int) string {
	key, _ := e.args(rank, VNil)
	_, name := e.run("Delete", rank, 0, 0, 0, func() (int, error) { return 0, e.DB.Delete(key) })
	return name
}

func (e *Eng) Get(rank int) (int, string) {
	key, _ := e.args(rank, VNil)
	return e.run("Get", rank, 0, 0, 0, func() (int, error) {
		b, err := e.DB.Get(key)
		if err != nil {
			return VNil, err
		}
		id := e.V.ID(b)
		e.gets++
		if e.Hostile && e.gets%2 == 0 && len(b) > 0 {
			// the returned slice is the caller's own copy: every other one is overwritten by the caller after
			// use (what the database holds, and what it returns next, must not depend on that)
			for i := range b {
				b[i] = 0xDD
			}
		} else {
			e.retain(b)
		}
		return id, nil
	})
}

func (e *Eng) Sync() string {
	_, name := e.run("Sync", 0, 0, 0, 0, func() (int, error) { return 0, e.DB.Sync() })
	return name
}

func (e *Eng) Merge() string {
	_, name := e.run("Merge", 0, 0, 0, 0, func() (int, error) { return 0, e.DB.Merge() })
	return name
}

func (e *Eng) NewBatch(sync bool) {
	a := 0
	if sync {
		a = 1
	}
	e.run("NewBatch", 0, 0, 0, a, func() (int, error) {
		e.Batch = e.DB.NewBatch(kv.BatchOptions{Sync: sync})
		return 0, nil
	})
}

func (e *Eng) BPut(rank, vid int) string {
	key, val := e.args(rank, vid)
	_, name := e.run("BPut", rank, vid, len(val), 0, func() (int, error) { return 0, e.Batch.Put(key, val) })
	return name
}

func (e *Eng) BDelete(rank int) string {
	key, _ := e.args(rank, VNil)
	_, name := e.run("BDelete", rank, 0, 0, 0, func() (int, error) { return 0, e.Batch.Delete(key) })
	return name
}

func (e *Eng) BGet(rank int) (int, string) {
	key, _ := e.args(rank, VNil)
	return e.run("BGet", rank, 0, 0, 0, func() (int, error) {
		b, err := e.Batch.Get(key)
		if err != nil {
			return VNil, err
		}
		return e.V.ID(b), nil
	})
}

func (e *Eng) Commit() string {
	_, name := e.run("Commit", 0, 0, 0, 0, func() (int, error) { return 0, e.Batch.Commit() })
	return name
}

// ---------------------------------------------------------------- observation

// ListDir returns the sorted names (with sizes) of a directory, without the lock file.
func ListDir(dir string) (names []string, sizes []int64) {
	ents, err := os.ReadDir(dir)
	if err != nil {
		return []string{}, []int64{}
	}
	names, sizes = []string{}, []int64{}
	for _, en := range ents {
		if en.Name() == datafile.FileLockSuffix {
			continue
		}
		names = append(names, en.Name())
		var sz int64 = -1
		if fi, err := en.Info(); err == nil {
			sz = fi.Size()
		}
		sizes = append(sizes, sz)
	}
	return
}

// DataFileIDs lists the ids of the *.data files of a directory in ascending order.
func DataFileIDs(dir string) []int {
	names, _ := ListDir(dir)
	ids := []int{}
	for _, n := range names {
		if strings.HasSuffix(n, datafile.DataFileSuffix) {
			if id, err := strconv.Atoi(strings.TrimSuffix(n, datafile.DataFileSuffix)); err == nil {
				ids = append(ids, id)
			}
		}
	}
	sort.Ints(ids)
	return ids
}

// copyPrefix copies the first n bytes (n < 0: all) of src to dst.
func copyPrefix(src, dst string, n int64) error {
	in, err := os.Open(src)
	if err != nil {
		return err
	}
	defer in.Close()
	out, err := os.Create(dst)
	if err != nil {
		return err
	}
	defer out.Close()
	if n < 0 {
		err = copySparse(in, out)
	} else {
		_, err = io.CopyN(out, in, n)
		if err == io.EOF {
			err = nil
		}
	}
	return err
}

// copySparse copies a whole file, skipping the holes of the source (memory-mapped engine files are extended
// to 512 MiB without being written): the copy has the same size and content and stays sparse.
func copySparse(in, out *os.File) error {
	fi, err := in.Stat()
	if err != nil {
		return err
	}
	size := fi.Size()
	const seekData, seekHole = 3, 4
	buf := make([]byte, 1<<16)
	for off := int64(0); off < size; {
		d, err := in.Seek(off, seekData)
		if err != nil {
			if errors.Is(err, syscall.ENXIO) { // nothing but a hole up to the end
				break
			}
			// the file system cannot report holes: plain copy of the rest
			if _, err := in.Seek(off, io.SeekStart); err != nil {
				return err
			}
			if _, err := out.Seek(off, io.SeekStart); err != nil {
				return err
			}
			_, err = io.Copy(out, in)
			return err
		}
		hEnd, err := in.Seek(d, seekHole)
		if err != nil {
			hEnd = size
		}
		for p := d; p < hEnd; {
			m := int64(len(buf))
			if hEnd-p < m {
				m = hEnd - p
			}
			k, rerr := in.ReadAt(buf[:m], p)
			if k > 0 {
				if _, werr := out.WriteAt(buf[:k], p); werr != nil {
					return werr
				}
				p += int64(k)
			}
			if rerr != nil {
				if rerr == io.EOF {
					break
				}
				return rerr
			}
		}
		off = hEnd
	}
	return out.Truncate(size)
}

// ScanFile reads every record of one data file with the package's own
// sequential reader. logical < 0 means "use the physical size". It runs under
// recover: the reader is engine code and may have defects of its own.
func (e *Eng) ScanFile(dir string, id int, logical int64) (recs []Rec, errName string) {
	src := datafile.GetFileName(dir, uint32(id), datafile.DataFileSuffix)
	os.MkdirAll(e.Scratch, 0755)
	tmpDir, err := os.MkdirTemp(e.Scratch, "scan")
	if err != nil {
		return nil, "err:" + err.Error()
	}
	defer os.RemoveAll(tmpDir)
	if err := copyPrefix(src, datafile.GetFileName(tmpDir, uint32(id), datafile.DataFileSuffix), logical); err != nil {
		return nil, "err:" + err.Error()
	}
	errName = "ok"
	func() {
		defer func() {
			if r := recover(); r != nil {
				errName = "panic"
			}
		}()
		df, err := datafile.OpenFile(tmpDir, uint32(id), datafile.DataFileSuffix, fio.StandardFIO)
		if err != nil {
			errName = "err:" + err.Error()
			return
		}
		defer df.Close()
		rd := df.NewReader()
		for {
			lr, pos, err := rd.NextLogRecord()
			if err != nil {
				if err != io.EOF {
					errName = ErrName(err)
				}
				return
			}
			r := Rec{F: id, B: int(pos.BlockID), O: int(pos.Offset), S: int(pos.Size), T: int(lr.Type), BT: e.BatchSmallID(lr.BatchID)}
			if lr.Type == datafile.LogRecordBatchFinished {
				r.K, r.V = 0, 0
			} else {
				r.K = e.U.Rank(lr.Key)
				if lr.Type == datafile.LogRecordDeleted {
					r.V = VNil
				} else {
					r.V = e.V.ID(lr.Value)
				}
			}
			recs = append(recs, r)
		}
	}()
	return recs, errName
}

// Dump is the full observation of an open database: every read path of the
// public API, Stat, the engine's own view of its files and index, and the
// records appended to the data files since the previous dump (all records
// after an Open, when files may have been replaced).
func (e *Eng) Dump() {
	if e.Dead || e.DB == nil {
		return
	}
	WithoutCapture(func() { e.dump() })
}

func (e *Eng) dump() {
	n := e.U.N()
	ev := Ev{"ev": "dump"}
	// Get of every key of the universe
	vals := make([]int, n)
	geterr := "ok"
	for r := 1; r <= n; r++ {
		key := e.U.Key(r)
		var b []byte
		name := Guard(CallTimeout, func() error {
			var err error
			b, err = e.DB.Get(key)
			return err
		})
		switch name {
		case "ok":
			vals[r-1] = e.V.ID(b)
		case "notfound":
			vals[r-1] = VNil
		default:
			vals[r-1] = VErr
			geterr = name
			if name == "panic" || name == "stuck" {
				e.Dead = true
			}
		}
	}
	ev["vals"] = vals
	ev["geterr"] = geterr
	// ListKeys
	// (the list is read only after the Fold below has run: a result is the caller's from the return on, whatever the
	// database is asked next)
	keys := []int{}
	var listed [][]byte
	lkerr := Guard(CallTimeout, func() error {
		listed = e.DB.ListKeys()
		return nil
	})
	// Fold
	fk, fv := []int{}, []int{}
	folderr := Guard(CallTimeout, func() error {
		return e.DB.Fold(func(k, v []byte) bool {
			fk = append(fk, e.U.Rank(k))
			fv = append(fv, e.V.ID(v))
			return true
		})
	})
	ev["fk"], ev["fv"], ev["folderr"] = fk, fv, folderr
	for _, k := range listed {
		keys = append(keys, e.U.Rank(k))
		e.retain(k)
	}
	ev["keys"] = keys
	ev["lkerr"] = lkerr
	e.txf("D %v %s %v %s %v %v %s|", vals, geterr, keys, lkerr, fk, fv, folderr)
	if lkerr == "panic" || lkerr == "stuck" || folderr == "panic" || folderr == "stuck" {
		e.Dead = true
	}
	// Stat
	st := e.DB.Stat()
	ev["stat"] = map[string]any{"keys": st.KeyNum, "files": st.DataFileNum, "reclaim": st.ReclaimableSize, "disk": st.DiskSize}
	// engine's own projection
	vs := e.DB.VerifState()
	idx := make([]map[string]any, n)
	for i := range idx {
		idx[i] = map[string]any{"f": -1, "b": 0, "o": 0, "s": 0}
	}
	alien := 0
	for _, en := range vs.Index {
		r := e.U.Rank(en.Key)
		if r < 0 {
			alien++
			continue
		}
		idx[r-1] = map[string]any{"f": int(en.Pos.Fid), "b": int(en.Pos.BlockID), "o": int(en.Pos.Offset), "s": int(en.Pos.Size)}
	}
	ev["index"] = idx
	ev["alien"] = alien
	sort.Slice(vs.Files, func(i, j int) bool { return vs.Files[i].ID < vs.Files[j].ID })
	logical := map[int]int64{}
	files := []map[string]any{}
	for _, f := range vs.Files {
		logical[int(f.ID)] = f.Size
	}
	// scan of the data files (new records only, unless a rescan is due)
	scan := []map[string]any{}
	scanerr := "ok"
	if e.rescan {
		e.seen = map[int]int{}
	}
	ids := DataFileIDs(e.Dir)
	for _, id := range ids {
		lg, ok := logical[id]
		if !ok {
			lg = -1
		}
		recs, en := e.ScanFile(e.Dir, id, lg)
		if en != "ok" {
			scanerr = en
		}
		for i, r := range recs {
			if i >= e.seen[id] {
				scan = append(scan, r.Ev())
			}
		}
		e.seen[id] = len(recs)
		phys := int64(-1)
		if fi, err := os.Stat(datafile.GetFileName(e.Dir, uint32(id), datafile.DataFileSuffix)); err == nil {
			phys = fi.Size()
		}
		act := 0
		for _, f := range vs.Files {
			if int(f.ID) == id && f.Active {
				act = 1
			}
		}
		nfin := 0
		for _, r := range recs {
			if r.T == 2 {
				nfin++
			}
		}
		files = append(files, map[string]any{"id": id, "size": lg, "phys": phys, "nrec": len(recs), "nfin": nfin, "open": b2i(ok), "active": act})
	}
	ev["files"] = files
	ev["nopen"] = len(vs.Files)
	ev["scan"] = scan
	ev["rescan"] = e.rescan
	ev["scanerr"] = scanerr
	e.rescan = false
	names, _ := ListDir(e.Dir)
	ev["dir"] = names
	mnames, _ := ListDir(e.DB.VerifMergePath())
	ev["mdir"] = mnames
	ev["total"] = vs.TotalSize
	e.T.Emit(ev)
}

func b2i(b bool) int {
	if b {
		return 1
	}
	return 0
}

// MergePath mirrors the engine's naming of the merge directory.
func MergePath(dir string) string {
	return filepath.Join(filepath.Dir(filepath.Clean(dir)), filepath.Base(dir)+"-merge")
}

// TxAdd adds driver-observed results (e.g. iteration orders) to the transcript digest.
func (e *Eng) TxAdd(format string, a ...any) { e.txf(format, a...) }
