package h

import "testing"

func TestTwins(t *testing.T) {
	for i := 1; i < 50; i++ {
		if _, _, ok := Twins(i); !ok {
			t.Fatal("twins do not collide", i)
		}
	}
	if TwinKeys(5).N() != 5 {
		t.Fatal("universe size")
	}
}
