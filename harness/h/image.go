package h

import (
	"io"
	"os"
	"path/filepath"
)

// CopyImage copies the regular files of src into dst (created). sizes maps a
// file name to the number of leading bytes to copy; files not listed are
// copied whole. Files named in skip are left out. Used for crash images,
// hint comparisons and partial-removal images.
func CopyImage(src, dst string, sizes map[string]int64, skip map[string]bool) error {
	if err := os.MkdirAll(dst, 0755); err != nil {
		return err
	}
	ents, err := os.ReadDir(src)
	if err != nil {
		if os.IsNotExist(err) {
			return nil
		}
		return err
	}
	for _, en := range ents {
		if en.IsDir() || en.Name() == ".lock" || skip[en.Name()] {
			continue
		}
		n, ok := sizes[en.Name()]
		if !ok {
			n = -1
		}
		if err := copyPrefix(filepath.Join(src, en.Name()), filepath.Join(dst, en.Name()), n); err != nil {
			return err
		}
	}
	return nil
}

// TruncateTo cuts (or zero-extends) a file to n bytes.
func TruncateTo(path string, n int64) error { return os.Truncate(path, n) }

// ZeroTail overwrites the bytes of path from offset n to its end with zeros.
func ZeroTail(path string, n int64) error {
	f, err := os.OpenFile(path, os.O_RDWR, 0644)
	if err != nil {
		return err
	}
	defer f.Close()
	fi, err := f.Stat()
	if err != nil {
		return err
	}
	if fi.Size() <= n {
		return nil
	}
	z := make([]byte, fi.Size()-n)
	_, err = f.WriteAt(z, n)
	return err
}

var _ = io.EOF
