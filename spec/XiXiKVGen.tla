----------------------------- MODULE XiXiKVGen -----------------------------
(***************************************************************************)
(* Behaviour generator: XiXiKV with a history variable that records the    *)
(* label and arguments of every action taken.  TLC runs it in simulation   *)
(* mode (tlc -simulate file=...,num=N -depth D); the final value of hist   *)
(* of every generated behaviour is an abstract script that the Go replayer *)
(* (driver profile "gen") steps through the real engine: client calls are  *)
(* parked at their intercepted I/O calls, Merge and Open at their named    *)
(* engine points, so that IoStep / MergeScan / AdoptStep / Crash /         *)
(* PowerLoss fall where the behaviour puts them.  The concrete execution   *)
(* is recorded and judged by CrashTrace (no second oracle).                *)
(*                                                                         *)
(* hist is kept out of XiXiKV itself: it would multiply the state space of *)
(* the exhaustive configurations without adding behaviour.                 *)
(***************************************************************************)
EXTENDS XiXiKV

CONSTANT Focus     \* "any"; "merge": process deaths are generated only while a Merge or an adoption is under way;
                   \* "goal": no generator guard at all (breadth-first search for a goal)
VARIABLES hist,
          marks,      \* ghost: number of merges that were completed (marker written)
          livemarks,  \* ghost: ... of which rewrote at least one record
          adopts,     \* ghost: number of Opens that adopted a finished merge
          cutmerges,  \* ghost: number of process deaths that interrupted the first Merge after it had rewritten a record
          adoptcuts,  \* ghost: number of process deaths inside an adoption that had taken at least one step
          giveups,    \* ghost: number of merges that gave up (output would reach a file that did not take part)
          leftkeys    \* ghost: the keys whose records the interrupted first Merge had rewritten into the directory it left behind
gvars == <<vars, hist, marks, livemarks, adopts, cutmerges, adoptcuts, giveups, leftkeys>>
GView == <<vars, marks, livemarks, adopts, cutmerges, adoptcuts, giveups, leftkeys>>      \* (goal search: states are identified without their history)

S(name, k, v) == [a |-> name, k |-> k, v |-> v, x |-> <<>>]
Ghost(name) == /\ marks' = IF name = "mergemark" THEN marks + 1 ELSE marks
               /\ livemarks' = IF name = "mergemark" /\ mdir.hint # <<>> THEN livemarks + 1 ELSE livemarks
               /\ adopts' = IF name = "openload" /\ adopt.nm > 0 THEN adopts + 1 ELSE adopts
               /\ cutmerges' = IF name = "crash" /\ merge.on /\ marks = 0 /\ mdir.hint # <<>> THEN cutmerges + 1 ELSE cutmerges
               /\ adoptcuts' = IF name = "crash" /\ st = "adopt" /\ (adopt.ph \in {"unmark", "rmdir"} \/ (adopt.ph = "files" /\ adopt.i >= 1))
                               THEN adoptcuts + 1 ELSE adoptcuts
               /\ giveups' = IF name = "mergescan" /\ merge.on /\ ~merge'.on THEN giveups + 1 ELSE giveups
               /\ leftkeys' = IF name = "crash" /\ merge.on /\ marks = 0 /\ mdir.hint # <<>>
                              THEN {mdir.hint[i].k : i \in 1..Len(mdir.hint)} ELSE leftkeys
L(name, k, v) == hist' = Append(hist, S(name, k, v)) /\ Ghost(name)

\* what a power failure left of every file: per file in ascending id order the number of whole records kept
\* and the number it held (x = kept_1, total_1, kept_2, total_2, ...); k = 1 if the active file ends in a torn record
Whole(rs) == Len(SelectSeq(rs, LAMBDA r : r.t # TORN))
CutLabel == LET fs == AscSeq(Fids) IN
            [a |-> "powerloss", k |-> IF HasTorn' THEN 1 ELSE 0, v |-> 0,
             x |-> [i \in 1..2 * Len(fs) |-> IF i % 2 = 1 THEN Whole(dir'[fs[(i + 1) \div 2]]) ELSE Len(dir[fs[i \div 2]])]]
\* which kind of scan step MergeScan takes: 0 one record, 1 next file, 2 the scan is over
ScanKind == IF merge.fi > Len(merge.files) THEN 2
            ELSE IF merge.ri > Len(dir[merge.files[merge.fi]]) THEN 1 ELSE 0

GInit == Init /\ hist = <<>> /\ marks = 0 /\ livemarks = 0 /\ adopts = 0 /\ cutmerges = 0 /\ adoptcuts = 0 /\ giveups = 0 /\ leftkeys = {}

\* Simulation mode picks successors at random; faults, restarts and merges of a database that holds nothing yet
\* teach little, so the generator takes them only once the run is warm (this restricts which behaviours are
\* generated, not what the engine may do: the exhaustive configurations of XiXiKV have no such guard).
Warm == Focus = "goal" \/ nops >= 3 \/ nfaults > 0 \/ nrestarts > 0 \/ st # "open"
CrashHere == Focus # "merge" \/ merge.on \/ st = "adopt"
Losable == \E f \in Fids : durable[f] < Len(dir[f])

GCore ==
  \/ \E k \in Keys, v \in Vals : PutBegin(k, v) /\ L("put", k, v)
  \/ \E k \in Keys : DelBegin(k) /\ L("del", k, 0)
  \/ SyncCall /\ L("sync", 0, 0)
  \/ IoStep /\ L("io", 0, 0)
  \/ Ack /\ L("ack", 0, 0)
  \/ \E sy \in BOOLEAN : NewBatch(sy) /\ L("newbatch", IF sy THEN 1 ELSE 0, 0)
  \/ \E k \in Keys, v \in Vals \cup {Nil} : BStage(k, v) /\ L("bstage", k, v)
  \/ BCommit /\ L("bcommit", 0, 0)
  \/ Warm /\ MergeBegin /\ L("mergebegin", 0, 0)
  \/ MergeRm /\ L("mergerm", 0, 0)
  \/ MergeMk /\ L("mergemk", 0, 0)
  \/ MergeScan /\ L("mergescan", ScanKind, 0)
  \/ MergeMark /\ L("mergemark", 0, 0)
  \/ Warm /\ CloseCall /\ L("close", 0, 0)
  \/ Warm /\ CrashHere /\ Crash /\ L("crash", 0, 0)
  \/ Losable /\ PowerLoss /\ hist' = Append(hist, CutLabel) /\ Ghost("powerloss")
  \/ AdoptStep /\ L("adoptstep", 0, 0)
  \/ OpenLoad /\ L("openload", 0, 0)
  \/ Retry /\ L("retry", 0, 0)
  \* (a new backup only once the directory has changed since the last one)
  \/ Warm /\ (IF bk.has THEN bk.dir # dir ELSE TRUE) /\ Backup /\ L("backup", 0, 0)

GNext == (GCore /\ UNCHANGED cfg) \/ \E nl \in Limits : OpenLock(nl) /\ L("openlock", nl, 0)

GSpec == GInit /\ [][GNext]_gvars

\* the generator must not wander outside what the exhaustive configurations established
GenOK == recok /\ st # "failed"

(* ---- goals --------------------------------------------------------------------------------------------- *)
(* TLC searches breadth-first for the shortest behaviour that reaches each goal (the goal's negation is given *)
(* as the invariant; the counterexample is the behaviour).  Each goal is a corner of the mechanism that the    *)
(* random walks of simulation mode seldom reach; lib/mbt.py lists the bounded constants used for each.        *)
\* a process death inside adoption, after the first rewritten file was renamed and before the second
\* (the tombstones were merged away: a deleted key is then absent only because no record of it is left)
NoTombstones == \A f \in Fids : \A i \in 1..Len(dir[f]) : dir[f][i].t # DEL
OncePut(k) == \E j \in 1..Len(acked) : k \in DOMAIN acked[j].w /\ acked[j].w[k] # Nil
G_AdoptHalf == st = "down" /\ nfaults > 0 /\ mdir.ex /\ mdir.marker.nm # 0 /\ 0 \notin DOMAIN mdir.files /\ 1 \in DOMAIN mdir.files
\* ... after the hint file was moved, before the marker is removed
G_AdoptHintMoved == st = "down" /\ nfaults > 0 /\ mdir.ex /\ mdir.marker.nm # 0 /\ ~mdir.hintThere /\ dhint # <<>> /\ livemarks = 1
\* ... after the marker was removed, before the directory is
G_AdoptUnmarked == st = "down" /\ nfaults > 0 /\ mdir.ex /\ mdir.marker.nm = 0 /\ dhint # <<>> /\ adopts = 0 /\ marks = 1
\* two process deaths inside one adoption (the second during the retry)
G_AdoptTwice == st = "down" /\ adoptcuts = 2 /\ livemarks = 1 /\ mdir.ex /\ mdir.marker.nm # 0 /\ 1 \in DOMAIN mdir.files
\* a Merge interrupted by a process death leaves an unmarked directory; a later Merge is completed and adopted
G_LeftoverThenAdopt == cutmerges = 1 /\ marks = 1 /\ livemarks = 1 /\ adopts = 1 /\ st = "open" /\ Quiescent
                       /\ NoTombstones /\ \E k \in leftkeys : index[k] = NoPos
\* an adopted merge, then a merge during which nothing is live, adopted too
G_EmptyMergeAfterAdopt == marks = 2 /\ livemarks = 1 /\ adopts = 2 /\ st = "open" /\ dhint = <<>> /\ NoTombstones /\ \A k \in Keys : index[k] = NoPos
\* a power failure that tears a record of a file other than the first
G_TornLaterFile == st = "down" /\ HasTorn /\ active >= 1
\* a process death that leaves an early-flushed piece of a batch without its finished record in a rotated file
G_BatchPieceOrphan == st = "down" /\ nfaults = 1 /\ \E f \in Fids : f < active /\ \E i \in 1..Len(dir[f]) :
                         dir[f][i].bt # 0 /\ ~\E g \in Fids : \E j \in 1..Len(dir[g]) : dir[g][j].t = FIN /\ dir[g][j].bt = dir[f][i].bt
\* a merge that gives up (its output would reach a file that did not take part), then one that is completed and adopted
G_GiveUpThenAdopt == nfaults = 0 /\ giveups = 1 /\ marks = 1 /\ livemarks = 1 /\ adopts = 1 /\ st = "open" /\ Quiescent /\ ~merge.on
\* a power failure after a merge was marked, with acknowledged mutations beyond the durable floor
G_PowerAfterMark == st = "down" /\ nfaults = 1 /\ marks = 1 /\ adopts = 0 /\ mdir.marker.nm # 0 /\ Len(acked) > floor /\ floor > 0
\* a delete that overtakes the merge scan: after the adoption the log holds a tombstone whose victim is gone
G_OrphanTombstone == adopts = 1 /\ st = "open" /\ Quiescent /\ \E f \in Fids : \E i \in 1..Len(dir[f]) :
                        dir[f][i].t = DEL /\ ~\E g \in Fids : \E j \in 1..Len(dir[g]) : dir[g][j].t = PUT /\ dir[g][j].k = dir[f][i].k
\* a committed Sync batch followed by an unflushed Put, then a power failure
G_SyncBatchThenLoss == st = "down" /\ nfaults = 1 /\ floor >= 1 /\ Len(acked) > floor
                       /\ \E f \in Fids : \E i \in 1..Len(dir[f]) : dir[f][i].t = FIN
\* a second merge cycle: two merges that rewrote records, both adopted, with writes in between
G_TwoCycles == livemarks = 2 /\ adopts = 2 /\ st = "open" /\ Quiescent /\ NoTombstones /\ \E k \in Keys : index[k] = NoPos /\ OncePut(k)
NotG_TwoCycles == ~G_TwoCycles
NotG_AdoptHalf == ~G_AdoptHalf
NotG_AdoptHintMoved == ~G_AdoptHintMoved
NotG_AdoptUnmarked == ~G_AdoptUnmarked
NotG_AdoptTwice == ~G_AdoptTwice
NotG_LeftoverThenAdopt == ~G_LeftoverThenAdopt
NotG_EmptyMergeAfterAdopt == ~G_EmptyMergeAfterAdopt
NotG_TornLaterFile == ~G_TornLaterFile
NotG_BatchPieceOrphan == ~G_BatchPieceOrphan
NotG_GiveUpThenAdopt == ~G_GiveUpThenAdopt
NotG_PowerAfterMark == ~G_PowerAfterMark
NotG_OrphanTombstone == ~G_OrphanTombstone
NotG_SyncBatchThenLoss == ~G_SyncBatchThenLoss
=============================================================================
