----------------------------- MODULE XiXiKVGen -----------------------------
(***************************************************************************)
(* Behaviour generator: XiXiKV with a history variable that records the    *)
(* label and arguments of every action taken.  TLC runs it in simulation   *)
(* mode (tlc -simulate file=...,num=N -depth D); the final value of hist   *)
(* of every generated behaviour is an abstract script that the Go replayer *)
(* (driver profile "gen") steps through the real engine: client calls are  *)
(* parked at their intercepted I/O calls, Merge and Open at their named    *)
(* engine points, so that IoStep / MergeScan / AdoptStep / Crash /         *)
(* PowerLoss fall where the behaviour puts them.  The concrete execution   *)
(* is recorded and judged by CrashTrace (no second oracle).                *)
(*                                                                         *)
(* hist is kept out of XiXiKV itself: it would multiply the state space of *)
(* the exhaustive configurations without adding behaviour.                 *)
(***************************************************************************)
EXTENDS XiXiKV

CONSTANT Focus     \* "any", or "merge": process deaths are generated only while a Merge or an adoption is under way
VARIABLE hist
gvars == <<vars, hist>>

S(name, k, v) == [a |-> name, k |-> k, v |-> v, x |-> <<>>]
L(name, k, v) == hist' = Append(hist, S(name, k, v))

\* what a power failure left of every file: per file in ascending id order the number of whole records kept
\* and the number it held (x = kept_1, total_1, kept_2, total_2, ...); k = 1 if the active file ends in a torn record
Whole(rs) == Len(SelectSeq(rs, LAMBDA r : r.t # TORN))
CutLabel == LET fs == AscSeq(Fids) IN
            [a |-> "powerloss", k |-> IF HasTorn' THEN 1 ELSE 0, v |-> 0,
             x |-> [i \in 1..2 * Len(fs) |-> IF i % 2 = 1 THEN Whole(dir'[fs[(i + 1) \div 2]]) ELSE Len(dir[fs[i \div 2]])]]
\* which kind of scan step MergeScan takes: 0 one record, 1 next file, 2 the scan is over
ScanKind == IF merge.fi > Len(merge.files) THEN 2
            ELSE IF merge.ri > Len(dir[merge.files[merge.fi]]) THEN 1 ELSE 0

GInit == Init /\ hist = <<>>

\* Simulation mode picks successors at random; faults, restarts and merges of a database that holds nothing yet
\* teach little, so the generator takes them only once the run is warm (this restricts which behaviours are
\* generated, not what the engine may do: the exhaustive configurations of XiXiKV have no such guard).
Warm == nops >= 3 \/ nfaults > 0 \/ nrestarts > 0 \/ st # "open"
CrashHere == Focus # "merge" \/ merge.on \/ st = "adopt"
Losable == \E f \in Fids : durable[f] < Len(dir[f])

GCore ==
  \/ \E k \in Keys, v \in Vals : PutBegin(k, v) /\ L("put", k, v)
  \/ \E k \in Keys : DelBegin(k) /\ L("del", k, 0)
  \/ SyncCall /\ L("sync", 0, 0)
  \/ IoStep /\ L("io", 0, 0)
  \/ Ack /\ L("ack", 0, 0)
  \/ \E sy \in BOOLEAN : NewBatch(sy) /\ L("newbatch", IF sy THEN 1 ELSE 0, 0)
  \/ \E k \in Keys, v \in Vals \cup {Nil} : BStage(k, v) /\ L("bstage", k, v)
  \/ BCommit /\ L("bcommit", 0, 0)
  \/ Warm /\ MergeBegin /\ L("mergebegin", 0, 0)
  \/ MergeRm /\ L("mergerm", 0, 0)
  \/ MergeMk /\ L("mergemk", 0, 0)
  \/ MergeScan /\ L("mergescan", ScanKind, 0)
  \/ MergeMark /\ L("mergemark", 0, 0)
  \/ Warm /\ CloseCall /\ L("close", 0, 0)
  \/ Warm /\ CrashHere /\ Crash /\ L("crash", 0, 0)
  \/ Losable /\ PowerLoss /\ hist' = Append(hist, CutLabel)
  \/ AdoptStep /\ L("adoptstep", 0, 0)
  \/ OpenLoad /\ L("openload", 0, 0)
  \/ Retry /\ L("retry", 0, 0)

GNext == (GCore /\ UNCHANGED cfg) \/ \E nl \in Limits : OpenLock(nl) /\ L("openlock", nl, 0)

GSpec == GInit /\ [][GNext]_gvars

\* the generator must not wander outside what the exhaustive configurations established
GenOK == recok /\ st # "failed"
=============================================================================
