------------------------------ MODULE MC_Conc ------------------------------
(* Bounded instances of Conc.tla (record-valued constants cannot be written in a .cfg file). *)
EXTENDS Conc
Op(o, k, v) == [op |-> o, k |-> k, k2 |-> 0, v |-> v]
\* C08: writers, a deleter and readers racing on one key (plus a second key)
MenuRW == {Op("Put", 1, 1), Op("Put", 1, 2), Op("Delete", 1, 0), Op("Get", 1, 0), Op("Put", 2, 1), Op("Get", 2, 0),
           [op |-> "Batch", k |-> 1, k2 |-> 2, v |-> 3], Op("Merge", 0, 0)}
\* C09: every kind of call
MenuAll == MenuRW \cup {Op("ListKeys", 0, 0), Op("Sync", 0, 0), Op("Stat", 0, 0), Op("BgMerge", 0, 0)}
=============================================================================
