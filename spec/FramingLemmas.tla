---------------------------- MODULE FramingLemmas ----------------------------
(***************************************************************************)
(* Arithmetic lemmas of the framing, checked by TLC for the REAL constants *)
(* (B = 32768, H = 7) at every offset within a block and a set of          *)
(* boundary-directed payload lengths: each state is one (offset, length)   *)
(* pair, the lemmas are the invariant.                                     *)
(***************************************************************************)
EXTENDS FramingOps
CONSTANTS Lens, KVLens
VARIABLES o, n
Init == o \in 0..(B - 1) /\ n \in Lens
Next == UNCHANGED <<o, n>>
Spec == Init /\ [][Next]_<<o, n>>

\* the reader's cursor after a record that ended at absolute offset e (DataReader.next)
ReaderNext(e) == LET eo == IF e % B = 0 /\ e > 0 THEN B ELSE e % B
                     eb == IF e % B = 0 /\ e > 0 THEN e \div B - 1 ELSE e \div B
                 IN IF eo + H >= B THEN [blk |-> eb + 1, off |-> 0] ELSE [blk |-> eb, off |-> eo]
Ceil(a, b) == (a + b - 1) \div b

LemmasAt(abs) ==
   LET L == Layout(abs, n)
       r0 == B - L.off - H
   IN /\ L.end = abs + L.pad + L.size
      /\ L.pad >= 0 /\ L.pad <= H              \* at most H bytes of padding
      /\ L.off + H < B                          \* a record never starts where a header does not fit
      /\ r0 >= 1
      /\ L.size = L.chunks * H + n
      /\ L.chunks = (IF n <= r0 THEN 1 ELSE 1 + Ceil(n - r0, B - H))
      /\ L.blk * B + L.off = abs + L.pad
      \* where the next record starts according to the writer = where the sequential reader looks next
      /\ LET nx == Layout(L.end, 1) rn == ReaderNext(L.end) IN nx.blk = rn.blk /\ nx.off = rn.off
Lemmas == LemmasAt(o) /\ LemmasAt(B + o) /\ LemmasAt(5 * B + o)

\* the rotation estimate never under-estimates what a record adds to a file (padding included)
\* (padding occurs only near a block end, chunk-count effects only depend on the room left: the offsets
\* within 40 bytes of either end of a block, every 257th offset in between, and one length per state)
EstimateSafe == (o < 40 \/ o > B - 40 \/ o % 257 = 0) =>
   \A k \in KVLens : \A bt \in {0, 300, 70000} : Estimate(k, n) >= Layout(o, RecLen(k, n, bt)).end - o
=============================================================================
