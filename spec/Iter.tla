-------------------------------- MODULE Iter --------------------------------
(***************************************************************************)
(* C10.  The sharded heap-merge iterator (index/sharded_index.go           *)
(* IndexIterator: per-shard snapshot cursors, a heap of the valid ones,    *)
(* a parked list of the exhausted ones; iterator.go skipToNext: the prefix *)
(* filter applied after every move) against the reference cursor over the *)
(* sorted, prefix-filtered snapshot.  Keys are integer ranks.  TLC checks  *)
(* the refinement invariant Agree for every assignment of keys to shards,  *)
(* every snapshot, both directions and every call sequence in which each   *)
(* Seek is Legal (the only restriction the property places on callers).    *)
(* FreshSkips = FALSE reproduces the pinned NewIterator (no prefix skip at *)
(* creation): Agree then fails in an initial state.                        *)
(***************************************************************************)
EXTENDS Integers, Sequences, FiniteSets, TLC
CONSTANTS N, S, MaxCalls, FreshSkips   \* universe 1..N, shards 1..S; FreshSkips: NewIterator applies the prefix filter
VARIABLES assign, present, match, rev,   \* chosen at creation: shard of each key, snapshot, keys having the prefix, direction
          cur,      \* [1..S -> Nat] per-shard cursor into its ordered key list (1..len+1)
          heap,     \* set of shards currently in the heap
          parked,   \* oldItems
          rc,       \* reference cursor into RefList (1..len+1)
          moved,    \* a Seek/Next happened since creation / last Rewind
          calls
vars == <<assign, present, match, rev, cur, heap, parked, rc, moved, calls>>

\* ordered sequence of a finite set of ints, ascending or descending
RECURSIVE Sorted(_, _)
Sorted(X, r) == IF X = {} THEN <<>> ELSE
   LET m == IF r THEN CHOOSE x \in X : \A y \in X : y <= x ELSE CHOOSE x \in X : \A y \in X : x <= y
   IN <<m>> \o Sorted(X \ {m}, r)
ShardKeys(s) == Sorted({k \in present : assign[k] = s}, rev)
RefList == Sorted(present \cap match, rev)
Before(a, b) == IF rev THEN a > b ELSE a < b          \* a strictly earlier than b in iteration order
AtOrAfter(a, t) == IF rev THEN a <= t ELSE a >= t     \* key a satisfies the seek target t

ShardValid(s, c) == c[s] <= Len(ShardKeys(s))
ShardKey(s, c) == ShardKeys(s)[c[s]]
\* top of the heap
Top(h, c) == CHOOSE s \in h : \A u \in h : ~Before(ShardKey(u, c), ShardKey(s, c))
MValid(h) == h # {}
MKey(h, c) == ShardKey(Top(h, c), c)

\* index-level operations (return <<cur, heap, parked>>)
INext(c, h, p) == IF h = {} THEN <<c, h, p>> ELSE
   LET s == Top(h, c)  c2 == [c EXCEPT ![s] = c[s] + 1]
   IN IF ShardValid(s, c2) THEN <<c2, h, p>> ELSE <<c2, h \ {s}, p \cup {s}>>
SeekPos(s, t) == LET ks == ShardKeys(s) IN
   IF \E i \in 1..Len(ks) : AtOrAfter(ks[i], t)
   THEN CHOOSE i \in 1..Len(ks) : AtOrAfter(ks[i], t) /\ \A j \in 1..(i-1) : ~AtOrAfter(ks[j], t)
   ELSE Len(ks) + 1
ISeek(c, h, p, t) == IF h = {} THEN <<c, h, p>> ELSE
   LET c2 == [s \in 1..S |-> IF s \in h THEN SeekPos(s, t) ELSE c[s]]
       ok == {s \in h : ShardValid(s, c2)}
   IN <<c2, ok, p \cup (h \ ok)>>
IRewind(c, h, p) == <<[s \in 1..S |-> IF s \in h \cup p THEN 1 ELSE c[s]], h \cup p, {}>>
\* iterator.go skipToNext
RECURSIVE Skip(_, _, _)
Skip(c, h, p) == IF h = {} \/ MKey(h, c) \in match THEN <<c, h, p>>
                 ELSE LET n == INext(c, h, p) IN Skip(n[1], n[2], n[3])

Init == /\ assign \in [1..N -> 1..S] /\ present \in SUBSET (1..N) /\ rev \in BOOLEAN
        /\ match \in {1..N, {k \in 1..N : k % 2 = 0}, {k \in 1..N : k > 2}}
        /\ LET h0 == {s \in 1..S : \E k \in present : assign[k] = s}
               c0 == [s \in 1..S |-> 1]
               st == IF FreshSkips THEN Skip(c0, h0, {}) ELSE <<c0, h0, {}>>
           IN cur = st[1] /\ heap = st[2] /\ parked = st[3]
        /\ rc = 1 /\ moved = FALSE /\ calls = 0

RefValid == rc <= Len(RefList)
Apply(st) == cur' = st[1] /\ heap' = st[2] /\ parked' = st[3]
Keep == UNCHANGED <<assign, present, match, rev>>
Next_ == /\ calls < MaxCalls /\ calls' = calls + 1 /\ Keep /\ moved' = TRUE
         /\ LET n == INext(cur, heap, parked) IN Apply(Skip(n[1], n[2], n[3]))
         /\ rc' = IF RefValid THEN rc + 1 ELSE rc
Rewind == /\ calls < MaxCalls /\ calls' = calls + 1 /\ Keep /\ moved' = FALSE
          /\ LET n == IRewind(cur, heap, parked) IN Apply(Skip(n[1], n[2], n[3]))
          /\ rc' = 1
RefSeek(t) == LET L == RefList IN
   IF \E i \in 1..Len(L) : AtOrAfter(L[i], t)
   THEN CHOOSE i \in 1..Len(L) : AtOrAfter(L[i], t) /\ \A j \in 1..(i-1) : ~AtOrAfter(L[j], t)
   ELSE Len(L) + 1
Legal(t) == ~moved \/ RefSeek(t) >= rc
Seek(t) == /\ calls < MaxCalls /\ Legal(t) /\ calls' = calls + 1 /\ Keep /\ moved' = TRUE
           /\ LET n == ISeek(cur, heap, parked, t) IN Apply(Skip(n[1], n[2], n[3]))
           /\ rc' = RefSeek(t)
Next == Next_ \/ Rewind \/ \E t \in 0..(N + 1) : Seek(t)
Spec == Init /\ [][Next]_vars
Agree == /\ MValid(heap) = RefValid
         /\ RefValid => MKey(heap, cur) = RefList[rc]
\* each key of the reference list is yielded exactly once, in order, by Rewind followed by Next* (a consequence
\* of Agree along every behaviour; stated for documentation)
=============================================================================
