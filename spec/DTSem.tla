-------------------------------- MODULE DTSem --------------------------------
(***************************************************************************)
(* C19.  The abstract Redis-style types and the reply of every command of  *)
(* datatype.DataTypeService, as pure operators on the state of ONE key.    *)
(* Used by DataTypes.tla (the encoding over the key-value store is checked *)
(* against it by TLC) and by DataTypesTrace.tla (the real service).        *)
(*                                                                         *)
(* State of a key:  [t |-> "none"]                                         *)
(*   [t |-> "string", v, exp]      exp: the TTL has passed                 *)
(*   [t |-> "hash", m]             m: field -> value                       *)
(*   [t |-> "set", m]              m: member -> 1                          *)
(*   [t |-> "list", q]             q: sequence, head first                 *)
(*   [t |-> "zset", m]             m: member -> score                      *)
(* A command is [c, x (field / member / element), v (value), sc (score),   *)
(* exp].  A reply is [err, b, n, v]: error name, boolean flag, integer,    *)
(* value (0 = absent).                                                     *)
(***************************************************************************)
EXTENDS Integers, Sequences, FiniteSets, TLC

None == [t |-> "none"]
R(err, b, n, v) == [err |-> err, b |-> b, n |-> n, v |-> v]
OK == R("ok", FALSE, 0, 0)
WrongType == R("wrongtype", FALSE, 0, 0)
Has(m, x) == x \in DOMAIN m
Put(m, x, v) == [y \in DOMAIN m \cup {x} |-> IF y = x THEN v ELSE m[y]]
Drop(m, x) == [y \in DOMAIN m \ {x} |-> m[y]]

TypeOfCmd(c) == CASE c \in {"Set", "Get"} -> "string"
                  [] c \in {"HSet", "HGet", "HDel"} -> "hash"
                  [] c \in {"SAdd", "SIsMember", "SRem"} -> "set"
                  [] c \in {"LPush", "RPush", "LPop", "RPop"} -> "list"
                  [] c \in {"ZAdd", "ZScore"} -> "zset"
                  [] OTHER -> "any"
\* a key that holds nothing visible: never written / deleted, an expired string, an emptied container.
\* What a command of ANOTHER type answers on such a key is left open by the property (see DESIGN.md C19).
Vacant(s) == \/ s.t = "none" \/ (s.t = "string" /\ s.exp)
             \/ (s.t \in {"hash", "set", "zset"} /\ DOMAIN s.m = {}) \/ (s.t = "list" /\ s.q = <<>>)
Fresh(t) == CASE t = "hash" -> [t |-> "hash", m |-> <<>>] [] t = "set" -> [t |-> "set", m |-> <<>>]
              [] t = "zset" -> [t |-> "zset", m |-> <<>>] [] t = "list" -> [t |-> "list", q |-> <<>>]
              [] OTHER -> None

\* the command applied to a key whose state s has the command's own type (or is "none" and treated as empty)
ExecOwn(s0, cmd) ==
  LET t == TypeOfCmd(cmd.c)
      s == IF s0.t = "none" /\ t # "string" THEN Fresh(t) ELSE s0
  IN CASE cmd.c = "HSet"  -> << R("ok", ~Has(s.m, cmd.x), 0, 0), [s EXCEPT !.m = Put(s.m, cmd.x, cmd.v)] >>
       [] cmd.c = "HGet"  -> << R("ok", FALSE, 0, IF Has(s.m, cmd.x) THEN s.m[cmd.x] ELSE 0), s0 >>
       [] cmd.c = "HDel"  -> IF Has(s.m, cmd.x) THEN << R("ok", TRUE, 0, 0), [s EXCEPT !.m = Drop(s.m, cmd.x)] >>
                             ELSE << R("ok", FALSE, 0, 0), s0 >>
       [] cmd.c = "SAdd"  -> IF Has(s.m, cmd.x) THEN << R("ok", FALSE, 0, 0), s0 >>
                             ELSE << R("ok", TRUE, 0, 0), [s EXCEPT !.m = Put(s.m, cmd.x, 1)] >>
       [] cmd.c = "SIsMember" -> << R("ok", Has(s.m, cmd.x), 0, 0), s0 >>
       [] cmd.c = "SRem"  -> IF Has(s.m, cmd.x) THEN << R("ok", TRUE, 0, 0), [s EXCEPT !.m = Drop(s.m, cmd.x)] >>
                             ELSE << R("ok", FALSE, 0, 0), s0 >>
       [] cmd.c = "LPush" -> << R("ok", FALSE, Len(s.q) + 1, 0), [s EXCEPT !.q = <<cmd.x>> \o s.q] >>
       [] cmd.c = "RPush" -> << R("ok", FALSE, Len(s.q) + 1, 0), [s EXCEPT !.q = Append(s.q, cmd.x)] >>
       [] cmd.c = "LPop"  -> IF s.q = <<>> THEN << R("ok", FALSE, 0, 0), s0 >>
                             ELSE << R("ok", FALSE, 0, Head(s.q)), [s EXCEPT !.q = Tail(s.q)] >>
       [] cmd.c = "RPop"  -> IF s.q = <<>> THEN << R("ok", FALSE, 0, 0), s0 >>
                             ELSE << R("ok", FALSE, 0, s.q[Len(s.q)]), [s EXCEPT !.q = SubSeq(s.q, 1, Len(s.q) - 1)] >>
       [] cmd.c = "ZAdd"  -> << R("ok", ~Has(s.m, cmd.x), 0, 0), [s EXCEPT !.m = Put(s.m, cmd.x, cmd.sc)] >>
       [] cmd.c = "ZScore" -> IF Has(s.m, cmd.x) THEN << R("ok", TRUE, s.m[cmd.x], 0), s0 >> ELSE << R("ok", FALSE, 0, 0), s0 >>

\* the set of admissible <<reply, next state>> pairs of a command on a key in state s
Exec(s, cmd) ==
  LET t == TypeOfCmd(cmd.c) IN
  CASE cmd.c = "Set"  -> { << OK, [t |-> "string", v |-> cmd.v, exp |-> cmd.exp] >> }      \* overwrites whatever was there
    [] cmd.c = "Del"  -> { << OK, None >> }
    [] cmd.c = "Get"  -> IF s.t = "none" THEN { << R("notfound", FALSE, 0, 0), s >> }
                         ELSE IF s.t = "string" THEN { << R("ok", FALSE, 0, IF s.exp THEN 0 ELSE s.v), s >> }
                         ELSE IF Vacant(s) THEN { << WrongType, s >>, << R("notfound", FALSE, 0, 0), s >> }
                         ELSE { << WrongType, s >> }
    [] cmd.c = "Type" -> IF s.t = "none" THEN { << R("notfound", FALSE, 0, 0), s >> }
                         ELSE IF Vacant(s) THEN { << R("ok", FALSE, 0, 0), s >>, << R("notfound", FALSE, 0, 0), s >> }
                         ELSE { << R("ok", FALSE, 0, 0), s >> }                             \* (the type name is checked by TypeName)
    [] OTHER -> IF s.t = t \/ s.t = "none" THEN { ExecOwn(s, cmd) }
                ELSE IF Vacant(s) THEN { << WrongType, s >>, ExecOwn(None, cmd) }           \* left open: refuse, or start empty
                ELSE { << WrongType, s >> }
TypeName(s) == s.t
=============================================================================
