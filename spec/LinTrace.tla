------------------------------ MODULE LinTrace ------------------------------
(***************************************************************************)
(* C08 / C09.  Judges call/return histories recorded from concurrent runs  *)
(* of the real engine (format H).  A file is a concatenation of per-key    *)
(* histories (linearizability of registers is local: a history is          *)
(* linearizable iff its per-key sub-histories are), each                   *)
(*   reset  {key}                                                          *)
(*   call   {c, op, v, xerr, xres}  logged by client c just before the     *)
(*                          call (xerr/xres repeat the outcome logged on   *)
(*                          the matching ret: a join of two events)        *)
(*   ret    {c, err, res}   logged by client c just after the return       *)
(*   final  {live, rec}     at quiescence: Get on the live database, and   *)
(*                          Get after Close + Open                         *)
(* in the order of a global atomic counter.  The linearization point of    *)
(* each call is not logged: Lin(c) is a silent step that TLC places        *)
(* between the call and the return.  The history is accepted iff some      *)
(* placement explains every Get result, and ends with the register equal   *)
(* to both the live and the recovered value.  Two restrictions keep the    *)
(* search small without losing any linearization: (1) a silent step is     *)
(* taken only when the next logged event is a return (any linearization    *)
(* point can be moved forward to just before the next return event: call   *)
(* events constrain nothing); (2) a Get is linearized only where the       *)
(* register holds the value its return reports.                            *)
(* Further event kinds (C09): cop {op, err} one completed call of the      *)
(* mixed workload; note {check, ok}.                                       *)
(***************************************************************************)
EXTENDS Integers, Sequences, FiniteSets, TLC, Json

CONSTANTS TraceFile, Enforce
Trace == ndJsonDeserialize(TraceFile)
Nil == 0

VARIABLES l, reg, pend
vars == <<l, reg, pend>>
E == Trace[l]
Is(ev) == l <= Len(Trace) /\ Trace[l].ev = ev
Chk(name) == name \in Enforce
Fail(what) == Print(<<"CHECK-FAILED", "line", l, what>>, FALSE)
Must(name, cond) == IF Chk(name) /\ ~cond THEN Fail(name) ELSE TRUE

Init == l = 1 /\ reg = Nil /\ pend = <<>>
Without(f, x) == [y \in DOMAIN f \ {x} |-> f[y]]

TReset == /\ Is("reset") /\ pend = <<>> /\ l' = l + 1 /\ reg' = Nil /\ pend' = <<>>
TCall  == /\ Is("call") /\ E.c \notin DOMAIN pend /\ l' = l + 1
          /\ pend' = pend @@ (E.c :> [op |-> E.op, v |-> E.v, lin |-> FALSE, xerr |-> E.xerr, xres |-> E.xres])
          /\ UNCHANGED reg
\* the silent linearization step of a pending call
Lin(c) == /\ c \in DOMAIN pend /\ ~pend[c].lin /\ Is("ret")
          /\ pend[c].op = "Get" => IF reg = Nil THEN pend[c].xerr = "notfound" ELSE pend[c].xerr = "ok" /\ pend[c].xres = reg
          /\ reg' = CASE pend[c].op = "Put" -> pend[c].v [] pend[c].op = "Delete" -> Nil [] OTHER -> reg
          /\ pend' = [pend EXCEPT ![c].lin = TRUE]
          /\ UNCHANGED l
TRet   == /\ Is("ret") /\ E.c \in DOMAIN pend /\ pend[E.c].lin /\ l' = l + 1
          \* (a Get's result was compared with the register at its linearization step)
          /\ LET p == pend[E.c] IN
             IF p.op = "Get" THEN E.err = p.xerr /\ E.res = p.xres /\ E.err \in {"ok", "notfound"}
             ELSE E.err = "ok"
          /\ pend' = Without(pend, E.c) /\ UNCHANGED reg
\* at quiescence the live value and the value recovered by a restart are the register's
TFinal == /\ Is("final") /\ pend = <<>> /\ l' = l + 1
          /\ E.live = reg /\ E.rec = reg
          /\ UNCHANGED <<reg, pend>>

(* ---- C09: the mixed workload -------------------------------------------------- *)
\* individually valid calls succeed (reads may answer not-found); Merge may decline (in progress, output would not
\* fit, ratio, space) but never with a panic, a hang or an internal-inconsistency error
Internal == {"panic", "stuck", "indexfail", "nofile", "crc", "eof", "closed"}
OutcomeOK(op, err) == CASE op \in {"Get", "BGet", "IterValue"} -> err \in {"ok", "notfound"}
                        [] op = "Merge" -> err \notin Internal
                        [] OTHER -> err = "ok"
TCop  == /\ Is("cop") /\ l' = l + 1 /\ Must("c09", OutcomeOK(E.op, E.err)) /\ UNCHANGED <<reg, pend>>
\* C05, several goroutines on one batch: a late Put / Delete / Get that queued around a Commit. An accepted Put or
\* Delete has taken effect (it was part of what Commit wrote); a call that came after the Commit was rejected; the
\* Commit itself and the call that overflowed succeeded.
TSBatch == /\ Is("sbatch") /\ l' = l + 1 /\ UNCHANGED <<reg, pend>>
           /\ LET e == E IN
              Must("sbatch", /\ e.commit = "ok" /\ e.big = "ok"
                             /\ \/ e.late = "batchcommitted" /\ ~e.effect
                                \/ e.late = "ok" /\ (e.kind = "Get" \/ e.effect))
TNote == /\ Is("note") /\ l' = l + 1 /\ Must(E.check, E.ok) /\ UNCHANGED <<reg, pend>>

Next == TReset \/ TCall \/ TRet \/ TFinal \/ TCop \/ TNote \/ TSBatch \/ \E c \in DOMAIN pend : Lin(c)
Spec == Init /\ [][Next]_vars

ASSUME TLCSet(1, 0)
HW == IF l > TLCGet(1) THEN TLCSet(1, l) ELSE TRUE
Accepted == IF TLCGet(1) = Len(Trace) + 1 THEN TRUE
            ELSE Print(<<"REJECT at line", TLCGet(1)>>, FALSE)
=============================================================================
