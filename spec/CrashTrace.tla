----------------------------- MODULE CrashTrace -----------------------------
(***************************************************************************)
(* Trace specification for executions recorded with the I/O interception  *)
(* (format E, split calls).  Events:                                       *)
(*   reset     n (keys are 1..n), cfg (sync strategy, BytesPerSync, io)    *)
(*   call/ret  one public API call; the I/O calls it issued lie between    *)
(*   io        one completed I/O call: kind (open write sync close         *)
(*             truncate), d (0 data directory, 1 merge directory),         *)
(*             x (data hint fin), f (file id), n (bytes written; for open: *)
(*             the logical size the file had)                              *)
(*   crashrec  the directory image taken just before the next I/O call     *)
(*             (i.e. in the state reached so far) was reopened with the    *)
(*             real Open: as is (process death) or with one file cut to a  *)
(*             given length (power failure); what the reopened database    *)
(*             holds; optionally a continued run (Put, Close, Open, dump)  *)
(*   fault     (replay of model-generated behaviours, profile gen) the      *)
(*             running engine was abandoned at this instant and the run    *)
(*             continues on the directory image: proc (process death) or   *)
(*             power failure with cuts = [f, n]: file f keeps n bytes      *)
(*   recovered what the Open of that image exposed; the acknowledged       *)
(*             history is rebased to the prefix (or the call in flight)    *)
(*             that explains it, so that a later fault is judged against   *)
(*             what can still be lost                                      *)
(*   view      Get of every key + ListKeys of the live database at a       *)
(*             quiescent instant                                           *)
(* written/synced are advanced from io events only - the interception is   *)
(* the only source of truth for "flushed".  Judged here:                   *)
(*   C03/C04/C07  RecOK: the recovered mapping is the mapping after some   *)
(*                prefix of the acknowledged mutations, at or above the    *)
(*                durable floor (all of them for a process death), or      *)
(*                everything acknowledged plus the whole call in flight    *)
(*                (a batch counts as one mutation: all or nothing)         *)
(*   C13          the sync obligations at every return                     *)
(* Known, unrepaired defects are named deviation actions, enabled only if  *)
(* their id is in Known; each is guarded by its specific failing condition *)
(* so that any other violation of the same property is still rejected.     *)
(***************************************************************************)
EXTENDS Integers, Sequences, FiniteSets, TLC, Json, KVSem

CONSTANTS TraceFile, Enforce, Known
Trace == ndJsonDeserialize(TraceFile)

VARIABLES l, n, cfg,
          written, synced,  \* data file id -> bytes (from io events only)
          wends,            \* data file id -> set of offsets at which some write call ended
          pend,             \* the call in flight: [op, k, v, a, ends]
          batch,            \* [open, done, sync, staged, ends]
          maps,             \* maps[p+1] = mapping after p acknowledged mutations
          ends,             \* ends[p]   = write extents [f, start, end] of the p-th acknowledged mutation
          plain,            \* extents of acknowledged Put/Delete records not yet known flushed (C13 Threshold)
          st,               \* "closed" | "open"
          flt               \* the fault whose recovery has not been observed yet (profile gen)
vars == <<l, n, cfg, written, synced, wends, pend, batch, maps, ends, plain, st, flt>>

E == Trace[l]
Is(ev) == l <= Len(Trace) /\ Trace[l].ev = ev
K == 1..n
None == [op |-> "none"]
NoBatch == [open |-> FALSE, done |-> FALSE, sync |-> FALSE, staged |-> <<>>, ends |-> {}]
Chk(name) == name \in Enforce
Fail(what) == Print(<<"CHECK-FAILED", "line", l, what>>, FALSE)
Must(name, cond) == IF Chk(name) /\ ~cond THEN Fail(name) ELSE TRUE
Use(id) == Print(<<"KNOWN-FINDING-USED", id, l>>, TRUE)

Get(f, x, d) == IF x \in DOMAIN f THEN f[x] ELSE d
Upd(f, x, v) == [y \in DOMAIN f \cup {x} |-> IF y = x THEN v ELSE f[y]]

NoFlt == [on |-> FALSE]
NoCfg == [sync |-> "no", bps |-> 0, io |-> "std", limit |-> 0]
Init == /\ l = 1 /\ n = 0 /\ cfg = NoCfg /\ written = <<>> /\ synced = <<>> /\ wends = <<>>
        /\ pend = None /\ batch = NoBatch /\ maps = << <<>> >> /\ ends = <<>> /\ plain = {} /\ st = "closed"
        /\ flt = NoFlt

TReset == /\ Is("reset") /\ l' = l + 1 /\ n' = E.n /\ cfg' = NoCfg
          /\ written' = <<>> /\ synced' = <<>> /\ wends' = <<>> /\ pend' = None /\ batch' = NoBatch
          /\ maps' = << [k \in 1..E.n |-> Nil] >> /\ ends' = <<>> /\ plain' = {} /\ st' = "closed" /\ flt' = NoFlt

(* ---- I/O events --------------------------------------------------------- *)
IsData(e) == e.d = 0 /\ e.x = "data"
AllFlushed == \A f \in DOMAIN written : synced[f] = written[f]
\* block-tail padding that precedes a record written at file offset off (datafile writeToBuf)
Pad(off) == LET o == off % 32768 IN IF o + 7 >= 32768 /\ o # 0 THEN 32768 - o ELSE 0

TIo ==
  /\ Is("io") /\ l' = l + 1
  /\ LET e == E  f == e.f IN
     IF ~IsData(e) THEN UNCHANGED <<written, synced, wends, pend>>
     ELSE CASE e.kind = "open" ->
                 \* the engine opens a file once per Open: what it finds is the file's content (left by a clean
                 \* Close, or just adopted from a merge, in which case the old bookkeeping is void)
                 /\ written' = IF f \in DOMAIN written /\ written[f] = e.n THEN written ELSE Upd(written, f, e.n)
                 /\ synced'  = IF f \in DOMAIN written /\ written[f] = e.n THEN synced ELSE Upd(synced, f, e.n)
                 /\ wends'   = IF f \in DOMAIN written /\ written[f] = e.n THEN wends ELSE Upd(wends, f, {0, e.n})
                 /\ UNCHANGED pend
            [] e.kind = "write" ->
                 LET w0 == Get(written, f, 0)  w1 == w0 + e.n IN
                 \* C13: a file is flushed before the engine rotates away from it: whenever the engine writes to a
                 \* data file, every data file with a smaller id (the files it has rotated away from) is fully flushed
                 /\ Must("c13rot", \A g \in DOMAIN written : g < f => synced[g] = written[g])
                 /\ written' = Upd(written, f, w1)
                 /\ synced' = IF f \in DOMAIN synced THEN synced ELSE Upd(synced, f, 0)
                 /\ wends' = Upd(wends, f, Get(wends, f, {0}) \cup {w1})
                 /\ pend' = IF pend = None \/ e.n = 0 THEN pend
                            ELSE [pend EXCEPT !.ends = @ \cup {[f |-> f, start |-> w0, end |-> w1]}]
            [] e.kind = "sync" ->
                 /\ synced' = Upd(synced, f, Get(written, f, 0))
                 /\ UNCHANGED <<written, wends, pend>>
            [] OTHER -> UNCHANGED <<written, synced, wends, pend>>
  /\ plain' = {x \in plain : x.end > Get(synced', x.f, 0)}
  /\ UNCHANGED <<n, cfg, batch, maps, ends, st, flt>>

(* ---- calls ---------------------------------------------------------------- *)
TCall ==
  /\ Is("call") /\ pend = None /\ l' = l + 1
  /\ pend' = [op |-> E.op, k |-> E.k, v |-> E.v, a |-> E.a, ends |-> {}]
  /\ cfg' = IF E.op = "Open" THEN E.cfg ELSE cfg
  /\ UNCHANGED <<n, written, synced, wends, batch, maps, ends, plain, st, flt>>

P == Len(ends)                       \* acknowledged mutations so far
Cur == maps[Len(maps)]
WsetOf(staged) == [k \in {staged[i].k : i \in 1..Len(staged)} |-> LastStaged(staged, k).v]
ApplyWs(m, w) == [k \in DOMAIN m |-> IF k \in DOMAIN w THEN w[k] ELSE m[k]]
\* the write set the call in flight would apply if it took effect as a whole
PendW == IF pend = None THEN <<>>
         ELSE CASE pend.op = "Put" /\ pend.k \in K -> (pend.k :> pend.v)
                [] pend.op = "Delete" /\ pend.k \in K -> (pend.k :> Nil)
                [] pend.op = "Commit" /\ ~batch.done -> WsetOf(batch.staged)
                [] OTHER -> <<>>
Flushed(ex) == \A x \in ex : x.end <= Get(synced, x.f, 0)
RECURSIVE SumUnsynced(_)
SumUnsynced(S) == IF S = {} THEN 0 ELSE
    LET x == CHOOSE x \in S : TRUE
        from == IF Get(synced, x.f, 0) > x.start + Pad(x.start) THEN Get(synced, x.f, 0) ELSE x.start + Pad(x.start)
    IN (IF x.end > from THEN x.end - from ELSE 0) + SumUnsynced(S \ {x})

TRet ==
  /\ Is("ret") /\ pend # None /\ E.op = pend.op /\ l' = l + 1
  /\ LET e == E
         ok == e.err = "ok"
         isMut == ok /\ pend.op \in {"Put", "Delete"} /\ pend.k \in K /\ pend.ends # {}
         isCommit == pend.op = "Commit" /\ ~batch.done
         cEnds == batch.ends \cup pend.ends
         newPlain == IF isMut THEN {x \in plain \cup pend.ends : x.end > Get(synced, x.f, 0)} ELSE plain
     IN /\ TRUE
        \* ---- C13 ----
        /\ Must("c13always", (isMut /\ cfg.sync = "always") => Flushed(pend.ends))
        /\ Must("c13threshold", (cfg.sync = "threshold" /\ pend.op \in {"Put", "Delete"} /\ ok) => SumUnsynced(newPlain) < cfg.bps)
        /\ Must("c13batch", (isCommit /\ ok /\ batch.sync) => Flushed(cEnds))
        /\ Must("c13sync", (pend.op \in {"Sync", "Close"} /\ ok) => AllFlushed)
        \* ---- bookkeeping ----
        /\ plain' = newPlain
        /\ IF isMut THEN /\ maps' = Append(maps, ApplyWs(Cur, PendW)) /\ ends' = Append(ends, pend.ends)
           ELSE IF isCommit /\ ok /\ cEnds # {} THEN
                /\ maps' = Append(maps, ApplyWs(Cur, WsetOf(batch.staged))) /\ ends' = Append(ends, cEnds)
           ELSE UNCHANGED <<maps, ends>>
        /\ batch' = CASE pend.op = "NewBatch" -> [open |-> TRUE, done |-> FALSE, sync |-> pend.a = 1, staged |-> <<>>, ends |-> {}]
                      [] pend.op = "BPut" /\ ok /\ ~batch.done /\ pend.k \in K ->
                           [batch EXCEPT !.staged = Append(@, [k |-> pend.k, v |-> pend.v]), !.ends = @ \cup pend.ends]
                      [] pend.op = "BDelete" /\ ok /\ ~batch.done /\ pend.k \in K ->
                           [batch EXCEPT !.staged = Append(@, [k |-> pend.k, v |-> Nil]), !.ends = @ \cup pend.ends]
                      [] pend.op = "Commit" -> [batch EXCEPT !.done = TRUE, !.open = FALSE]
                      [] OTHER -> batch
        /\ st' = IF pend.op = "Open" /\ ok THEN "open" ELSE IF pend.op = "Close" /\ ok THEN "closed" ELSE st
  /\ pend' = None
  /\ UNCHANGED <<n, cfg, written, synced, wends, flt>>

(* ---- crash observations ----------------------------------------------------- *)
Durable(j) == Flushed(ends[j])
Floor(proc) == IF proc THEN P ELSE
   LET D == {j \in 1..P : Durable(j)} IN IF D = {} THEN 0 ELSE CHOOSE j \in D : \A i \in D : i <= j
AsMap(vals) == [k \in K |-> vals[k]]
Allowed(proc) == {maps[q + 1] : q \in Floor(proc)..P} \cup {ApplyWs(Cur, PendW)}
\* the cut lies strictly inside the extent of some write call (a torn write)
Torn(e) == ~e.proc /\ e.cutf >= 0 /\ e.cut \notin Get(wends, e.cutf, {0})
Continued(e, m) == ~e.cont.did \/
    (/\ e.cont.put = "ok" /\ e.cont.reopen = "ok"
     /\ AsMap(e.cont.vals) = [m EXCEPT ![e.cont.k] = e.cont.v])

RecOK(e) == /\ e.open = "ok" /\ e.geterr = "ok"
            /\ AsMap(e.vals) \in Allowed(e.proc)
            \* ListKeys of the recovered database agrees with its Gets
            /\ {e.keys[i] : i \in 1..Len(e.keys)} = {k \in K : e.vals[k] # Nil}
            /\ Len(e.keys) = Cardinality({k \in K : e.vals[k] # Nil})
            /\ Continued(e, AsMap(e.vals))

\* ---- known findings (deviation actions) ----
\* F24: a power failure that tears a write (cut strictly inside the bytes of one write call): Open reports an
\*      error instead of recovering the prefix before the torn record (standard-I/O back-end)
DevTorn(e) == "F24" \in Known /\ Torn(e) /\ cfg.io = "std" /\ e.open \notin {"ok", "panic", "stuck"}
\* F26: under the memory-mapped back-end every image that was not produced by a clean Close has its files
\*      extended with zeros to the mapping size; Open reports an error
DevMMap(e) == "F26" \in Known /\ cfg.io = "mmap" /\ ~e.clean /\ e.open \notin {"ok", "panic", "stuck"}

TCrashRec ==
  /\ Is("crashrec") /\ l' = l + 1
  /\ LET e == E IN
     IF ~Chk("recok") \/ RecOK(e) THEN TRUE
     ELSE IF DevTorn(e) THEN Use("F24")
     ELSE IF DevMMap(e) THEN Use("F26")
     ELSE Fail("recok")
  /\ UNCHANGED <<n, cfg, written, synced, wends, pend, batch, maps, ends, plain, st, flt>>

\* dumps of the live database are not judged here (EngineTrace does that); they are skipped
TSkip == /\ Is("dump") /\ l' = l + 1
         /\ UNCHANGED <<n, cfg, written, synced, wends, pend, batch, maps, ends, plain, st, flt>>

(* ---- replay of model-generated behaviours: the run continues after a fault ----------------- *)
MinI(a, b) == IF a < b THEN a ELSE b
MaxS(S) == CHOOSE x \in S : \A y \in S : y <= x
KeysAgree(e) == /\ {e.keys[i] : i \in 1..Len(e.keys)} = {k \in K : e.vals[k] # Nil}
                /\ Len(e.keys) = Cardinality({k \in K : e.vals[k] # Nil})

\* the engine is abandoned here (every goroutine parked or blocked); the image the run continues on keeps
\* every written byte (process death) or, per file named in cuts, its first n bytes (power failure)
TFault ==
  /\ Is("fault") /\ l' = l + 1
  /\ IF flt.on THEN
       \* a second process death before the recovery from the first fault was complete (during adoption): what
       \* may have been lost is still decided by the first fault
       flt' = flt /\ UNCHANGED <<written, synced, wends>>
     ELSE
     LET e == E
         C == {e.cuts[i] : i \in 1..Len(e.cuts)}
         keep(f) == IF \E c \in C : c.f = f THEN MinI(written[f], (CHOOSE c \in C : c.f = f).n) ELSE written[f]
         torn == \E c \in C : c.f \in DOMAIN written /\ c.n < written[c.f] /\ c.n \notin Get(wends, c.f, {0})
         commitInFlight == pend # None /\ pend.op = "Commit" /\ ~batch.done
     IN /\ flt' = [on |-> TRUE, proc |-> e.proc, lo |-> Floor(e.proc), infw |-> PendW, torn |-> torn,
                   infends |-> (IF pend = None THEN {} ELSE pend.ends) \cup (IF commitInFlight THEN batch.ends ELSE {})]
        \* (the driver never cuts below the flushed size it has observed through the same io events)
        /\ written' = [f \in DOMAIN written |-> keep(f)]
        /\ synced' = [f \in DOMAIN synced |-> MinI(synced[f], keep(f))]
        /\ wends' = [f \in DOMAIN wends |-> {x \in wends[f] : x <= keep(f)} \cup {keep(f)}]
  /\ pend' = None /\ batch' = NoBatch /\ plain' = {} /\ st' = "closed"
  /\ UNCHANGED <<n, cfg, maps, ends>>

\* the Open of the image returned (its call/ret/io events lie between the fault and this event)
TRecovered ==
  /\ Is("recovered") /\ flt.on /\ pend = None /\ l' = l + 1
  /\ LET e == E
         view == AsMap(e.vals)
         inflight == ApplyWs(Cur, flt.infw)
         Q == {q \in flt.lo..P : maps[q + 1] = view}
         ok == e.open = "ok" /\ e.geterr = "ok" /\ KeysAgree(e) /\ (Q # {} \/ view = inflight)
     IN IF ok /\ Q # {} THEN
             \* several prefixes may give the same mapping: the longest is taken (its records may all still be there)
             LET q == MaxS(Q) IN maps' = SubSeq(maps, 1, q + 1) /\ ends' = SubSeq(ends, 1, q)
        ELSE IF ok THEN maps' = Append(maps, view) /\ ends' = Append(ends, flt.infends)
        ELSE IF ~Chk("recok") THEN maps' = << view >> /\ ends' = <<>>
        ELSE IF "F24" \in Known /\ flt.torn /\ ~flt.proc /\ cfg.io = "std" /\ e.open \notin {"ok", "panic", "stuck"}
             THEN Use("F24") /\ UNCHANGED <<maps, ends>>
        ELSE Fail("recok") /\ UNCHANGED <<maps, ends>>
  /\ flt' = NoFlt
  /\ UNCHANGED <<n, cfg, written, synced, wends, pend, batch, plain, st>>

\* a quiescent instant of the live database (no call in flight, no batch open): it shows the acknowledged mapping
TView ==
  /\ Is("view") /\ l' = l + 1
  /\ Must("view", (pend = None /\ ~batch.open /\ ~flt.on) => (E.geterr = "ok" /\ AsMap(E.vals) = Cur /\ KeysAgree(E)))
  /\ UNCHANGED <<n, cfg, written, synced, wends, pend, batch, maps, ends, plain, st, flt>>

Next == TReset \/ TIo \/ TCall \/ TRet \/ TCrashRec \/ TSkip \/ TFault \/ TRecovered \/ TView
Spec == Init /\ [][Next]_vars

ASSUME TLCSet(1, 0)
HW == IF l > TLCGet(1) THEN TLCSet(1, l) ELSE TRUE
Accepted == IF TLCGet(1) = Len(Trace) + 1 THEN TRUE
            ELSE Print(<<"REJECT at line", TLCGet(1)>>, FALSE)
=============================================================================
