--------------------------- MODULE SyncConcTrace ---------------------------
(***************************************************************************)
(* C13 under concurrency.  Two clients use one database; the driver parks  *)
(* client A at the entry of an fsync its call issues (blocking I/O hook)   *)
(* and lets client B run meanwhile - as far as the engine's locks allow.   *)
(* Events (in the order they happened: while A is parked only B runs, and  *)
(* every intercepted I/O call is logged by the goroutine that made it      *)
(* before it goes on):                                                     *)
(*   reset {cfg: sync, bps, io}                                            *)
(*   call  {c, op}           client c is about to call Put / Delete        *)
(*   io    {c, kind, f, n}   a completed I/O call on data file f of the    *)
(*                           data directory made by client c's goroutine   *)
(*                           (open: n = size found; write: n bytes; sync)  *)
(*   ret   {c, op, err}      the call returned                             *)
(* written/synced advance from io events only.  Judged at every return of  *)
(* a successful Put/Delete:                                                *)
(*   Always     the bytes this call wrote are flushed                      *)
(*   Threshold  the bytes of acknowledged Puts/Deletes (block-tail padding *)
(*              excluded) that lie beyond the flushed size of their file,  *)
(*              this call's included, are fewer than BytesPerSync          *)
(***************************************************************************)
EXTENDS Integers, Sequences, FiniteSets, TLC, Json
CONSTANTS TraceFile, Enforce
Trace == ndJsonDeserialize(TraceFile)
VARIABLES l, cfg, written, synced, pend, acked
vars == <<l, cfg, written, synced, pend, acked>>
E == Trace[l]
Is(ev) == l <= Len(Trace) /\ Trace[l].ev = ev
Chk(name) == name \in Enforce
Fail(what) == Print(<<"CHECK-FAILED", "line", l, what>>, FALSE)
Must(name, cond) == IF Chk(name) /\ ~cond THEN Fail(name) ELSE TRUE
Get(f, x, d) == IF x \in DOMAIN f THEN f[x] ELSE d
Upd(f, x, v) == [y \in DOMAIN f \cup {x} |-> IF y = x THEN v ELSE f[y]]
Without(f, x) == [y \in DOMAIN f \ {x} |-> f[y]]
NoCfg == [sync |-> "no", bps |-> 0, io |-> "std"]
Init == l = 1 /\ cfg = NoCfg /\ written = <<>> /\ synced = <<>> /\ pend = <<>> /\ acked = {}
TReset == /\ Is("reset") /\ l' = l + 1 /\ cfg' = E.cfg
          /\ written' = <<>> /\ synced' = <<>> /\ pend' = <<>> /\ acked' = {}
TCall == /\ Is("call") /\ E.c \notin DOMAIN pend /\ l' = l + 1
         /\ pend' = pend @@ (E.c :> [op |-> E.op, ends |-> {}])
         /\ UNCHANGED <<cfg, written, synced, acked>>
\* block-tail padding that precedes a record written at file offset off (datafile writeToBuf)
Pad(off) == LET o == off % 32768 IN IF o + 7 >= 32768 /\ o # 0 THEN 32768 - o ELSE 0
TIo == /\ Is("io") /\ l' = l + 1
       /\ LET e == E  f == e.f IN
          CASE e.kind = "open" ->
                 /\ written' = Upd(written, f, e.n) /\ synced' = Upd(synced, f, e.n) /\ UNCHANGED pend
            [] e.kind = "write" ->
                 LET w0 == Get(written, f, 0)  w1 == w0 + e.n IN
                 /\ written' = Upd(written, f, w1)
                 /\ synced' = IF f \in DOMAIN synced THEN synced ELSE Upd(synced, f, 0)
                 /\ pend' = IF e.c \in DOMAIN pend /\ e.n > 0
                            THEN [pend EXCEPT ![e.c].ends = @ \cup {[f |-> f, start |-> w0, end |-> w1]}] ELSE pend
            [] e.kind = "sync" ->
                 /\ synced' = Upd(synced, f, Get(written, f, 0)) /\ UNCHANGED <<written, pend>>
            [] OTHER -> UNCHANGED <<written, synced, pend>>
       /\ acked' = {x \in acked : x.end > Get(synced', x.f, 0)}
       /\ UNCHANGED cfg
Flushed(ex) == \A x \in ex : x.end <= Get(synced, x.f, 0)
RECURSIVE SumUnsynced(_)
SumUnsynced(S) == IF S = {} THEN 0 ELSE
    LET x == CHOOSE x \in S : TRUE
        from == IF Get(synced, x.f, 0) > x.start + Pad(x.start) THEN Get(synced, x.f, 0) ELSE x.start + Pad(x.start)
    IN (IF x.end > from THEN x.end - from ELSE 0) + SumUnsynced(S \ {x})
TRet == /\ Is("ret") /\ E.c \in DOMAIN pend /\ pend[E.c].op = E.op /\ l' = l + 1
        /\ LET p == pend[E.c]
               isMut == E.err = "ok" /\ p.op \in {"Put", "Delete"} /\ p.ends # {}
               newAcked == IF isMut THEN {x \in acked \cup p.ends : x.end > Get(synced, x.f, 0)} ELSE acked
           IN /\ Must("c13always", (isMut /\ cfg.sync = "always") => Flushed(p.ends))
              /\ Must("c13threshold", (cfg.sync = "threshold" /\ p.op \in {"Put", "Delete"} /\ E.err = "ok")
                                       => SumUnsynced(newAcked) < cfg.bps)
              /\ Must("outcome", E.err = "ok")
              /\ acked' = newAcked
        /\ pend' = Without(pend, E.c)
        /\ UNCHANGED <<cfg, written, synced>>
TNote == /\ Is("note") /\ l' = l + 1 /\ Must(E.check, E.ok) /\ UNCHANGED <<cfg, written, synced, pend, acked>>
Next == TReset \/ TCall \/ TIo \/ TRet \/ TNote
Spec == Init /\ [][Next]_vars
ASSUME TLCSet(1, 0)
HW == IF l > TLCGet(1) THEN TLCSet(1, l) ELSE TRUE
Accepted == IF TLCGet(1) = Len(Trace) + 1 THEN TRUE ELSE Print(<<"REJECT at line", TLCGet(1)>>, FALSE)
=============================================================================
