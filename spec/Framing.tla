------------------------------- MODULE Framing -------------------------------
(***************************************************************************)
(* The block/chunk framing of data files (datafile/data_file.go             *)
(* writeToBuf, readToBuf, DataReader.next; datafile/log_record.go record    *)
(* and hint header lengths), as pure arithmetic over                        *)
(*   B  block size   (32768 in the code)                                    *)
(*   H  chunk header (7 in the code: crc 4, length 2, type 1)               *)
(* plus a byte-level model of a file (a sequence of cells) on which the     *)
(* writer and both readers are transcribed, so that TLC can check           *)
(*   read(write*(records)) = records  with the positions reported at write  *)
(* exhaustively for scaled-down constants (MC_Framing) and the arithmetic   *)
(* lemmas for the real constants at every offset (MC_FramingReal).          *)
(***************************************************************************)
EXTENDS FramingOps

(* ---- byte-level model ------------------------------------------------------- *)
\* a file is a sequence of cells: <<"p">> padding, <<"h", type, len, rec>> first header byte,
\* <<"x">> the other header bytes, <<"d", rec, i>> the i-th payload byte of record rec
FULL == 0  FIRST == 1  MIDDLE == 2  LAST == 3
Rep(c, k) == [i \in 1..k |-> c]
HeaderCells(type, len, rec) == << <<"h", type, len, rec>> >> \o Rep(<<"x">>, H - 1)
DataCells(rec, from, len) == [i \in 1..len |-> <<"d", rec, from + i - 1>>]

RECURSIVE ChunkCells(_, _, _, _)
\* cells of the chunks of record rec from payload byte `done`+1 on; room = payload room of the next chunk
ChunkCells(rec, n, done, room) ==
   IF done >= n THEN <<>>
   ELSE LET w == IF n - done < room THEN n - done ELSE room
            last == done + w = n
            type == IF last THEN (IF done = 0 THEN FULL ELSE LAST) ELSE (IF done = 0 THEN FIRST ELSE MIDDLE)
        IN HeaderCells(type, w, rec) \o DataCells(rec, done + 1, w) \o ChunkCells(rec, n, done + w, B - H)

\* append record number rec with n payload bytes
WriteCells(file, rec, n) ==
   LET L == Layout(Len(file), n) IN file \o Rep(<<"p">>, L.pad) \o ChunkCells(rec, n, 0, B - L.off - H)

(* ---- the readers -------------------------------------------------------------- *)
\* DecodeChunk at absolute position p (0-based): the header cell must be there and the payload complete
ChunkAt(file, p) ==
   IF p + H > Len(file) \/ file[p + 1][1] # "h" THEN [ok |-> FALSE]
   ELSE LET h == file[p + 1] IN
        IF p + H + h[3] > Len(file) THEN [ok |-> FALSE]
        ELSE [ok |-> TRUE, type |-> h[2], len |-> h[3], rec |-> h[4],
              data |-> [i \in 1..h[3] |-> file[p + H + i]]]

RECURSIVE ReadFrom(_, _, _, _)
\* readToBuf / the inner loop of DataReader.next: follow chunks from (blk, off) until Full or Last.
\* Result: [st, data, cnt, blk, off] with st in {"ok", "eof", "err"}; (blk, off) = position after the last chunk
ReadFrom(file, blk, off, acc) ==
   LET base == blk * B
       size == IF Len(file) - base < B THEN Len(file) - base ELSE B
   IN IF base >= Len(file) \/ off >= size THEN [st |-> "eof", data |-> acc.data, cnt |-> acc.cnt, blk |-> blk, off |-> off]
      ELSE LET c == ChunkAt(file, base + off) IN
           IF ~c.ok THEN [st |-> "err", data |-> acc.data, cnt |-> acc.cnt, blk |-> blk, off |-> off]
           ELSE LET a2 == [data |-> acc.data \o c.data, cnt |-> acc.cnt + 1] IN
                IF c.type \in {FULL, LAST}
                THEN [st |-> "ok", data |-> a2.data, cnt |-> a2.cnt, blk |-> blk, off |-> off + H + c.len]
                ELSE ReadFrom(file, blk + 1, 0, a2)
ReadAt(file, blk, off) == ReadFrom(file, blk, off, [data |-> <<>>, cnt |-> 0])

RECURSIVE SeqRead(_, _, _)
\* DataReader: the sequence of [blk, off, size, data] it delivers from cursor (blk, off), and how it ended
SeqRead(file, blk, off) ==
   LET r == ReadAt(file, blk, off) IN
   IF r.st # "ok" THEN [recs |-> <<>>, end |-> r.st]
   ELSE LET nb == IF r.off + H >= B THEN r.blk + 1 ELSE r.blk     \* skip a tail that cannot hold a header
            no == IF r.off + H >= B THEN 0 ELSE r.off
            rest == SeqRead(file, nb, no)
        IN [recs |-> << [blk |-> blk, off |-> off, size |-> r.cnt * H + Len(r.data), data |-> r.data] >> \o rest.recs,
            end |-> rest.end]

(* ---- exhaustive check on scaled constants: state = the file and what was written ---- *)
CONSTANTS MaxRecs, Lens      \* number of records per file, set of payload lengths (>= 1)
VARIABLES file, wrote        \* wrote: sequence of [n, blk, off, size]
Init == file = <<>> /\ wrote = <<>>
Write(n) == /\ Len(wrote) < MaxRecs
            /\ LET L == Layout(Len(file), n) IN
               /\ file' = WriteCells(file, Len(wrote) + 1, n)
               /\ wrote' = Append(wrote, [n |-> n, blk |-> L.blk, off |-> L.off, size |-> L.size])
Next == \E n \in Lens : Write(n)
Spec == Init /\ [][Next]_<<file, wrote>>

Payload(rec, n) == [i \in 1..n |-> <<"d", rec, i>>]
\* the sequential reader delivers exactly the records written, in order, at the reported positions, with the
\* reported sizes, byte-identical, and ends with a clean EOF
SeqRoundTrip ==
   LET s == SeqRead(file, 0, 0) IN
   /\ s.end = "eof" /\ Len(s.recs) = Len(wrote)
   /\ \A i \in 1..Len(wrote) : /\ s.recs[i].blk = wrote[i].blk /\ s.recs[i].off = wrote[i].off
                               /\ s.recs[i].size = wrote[i].size /\ s.recs[i].data = Payload(i, wrote[i].n)
\* random access by the reported position returns the record
RandomRoundTrip == \A i \in 1..Len(wrote) :
   LET r == ReadAt(file, wrote[i].blk, wrote[i].off) IN r.st = "ok" /\ r.data = Payload(i, wrote[i].n)
\* the size reported for a record is the number of bytes it occupies (headers + payload; padding is not part of it),
\* and the file's length is the sum of padding and sizes (logical size = physical size)
RECURSIVE SumSizes(_, _)
SumSizes(w, i) == IF i > Len(w) THEN 0 ELSE w[i].size + SumSizes(w, i + 1)
NPad == Cardinality({i \in 1..Len(file) : file[i][1] = "p"})
SizeIsOccupancy == Len(file) = SumSizes(wrote, 1) + NPad
(* ---- C12 on the byte-level model: damaged or cut files ---------------------------------- *)
\* A damaged cell is <<"z">>: it is neither a header nor the payload byte that was written (the checksum is
\* treated as collision-free: a chunk whose header or payload contains a damaged cell does not decode).
Damage(f, i) == [f EXCEPT ![i] = <<"z">>]
ChunkAtD(f, p) ==
   LET c == ChunkAt(f, p) IN
   IF ~c.ok THEN c
   ELSE IF \E i \in (p + 1)..(p + H + c.len) : f[i][1] = "z" THEN [ok |-> FALSE] ELSE c
RECURSIVE ReadFromD(_, _, _, _)
ReadFromD(f, blk, off, acc) ==
   LET base == blk * B
       size == IF Len(f) - base < B THEN Len(f) - base ELSE B
   IN IF base >= Len(f) \/ off >= size THEN [st |-> "eof", data |-> acc.data, cnt |-> acc.cnt, blk |-> blk, off |-> off]
      ELSE LET c == ChunkAtD(f, base + off) IN
           IF ~c.ok THEN [st |-> "err", data |-> acc.data, cnt |-> acc.cnt, blk |-> blk, off |-> off]
           ELSE LET a2 == [data |-> acc.data \o c.data, cnt |-> acc.cnt + 1] IN
                IF c.type \in {FULL, LAST}
                THEN [st |-> "ok", data |-> a2.data, cnt |-> a2.cnt, blk |-> blk, off |-> off + H + c.len]
                ELSE ReadFromD(f, blk + 1, 0, a2)
RECURSIVE SeqReadD(_, _, _)
SeqReadD(f, blk, off) ==
   LET r == ReadFromD(f, blk, off, [data |-> <<>>, cnt |-> 0]) IN
   IF r.st # "ok" THEN [recs |-> <<>>, end |-> r.st]
   ELSE LET nb == IF r.off + H >= B THEN r.blk + 1 ELSE r.blk
            no == IF r.off + H >= B THEN 0 ELSE r.off
            rest == SeqReadD(f, nb, no)
        IN [recs |-> << [data |-> r.data] >> \o rest.recs, end |-> rest.end]
Written == {Payload(i, wrote[i].n) : i \in 1..Len(wrote)}
\* one damaged byte anywhere: whatever the sequential reader and random reads deliver is a record that was
\* written, byte-identical (the rest is an error or - for padding - no change at all)
DamageSafe == \A i \in 1..Len(file) :
   LET f == Damage(file, i)
       s == SeqReadD(f, 0, 0)
   IN /\ \A j \in 1..Len(s.recs) : s.recs[j].data \in Written
      /\ \A j \in 1..Len(wrote) :
            LET r == ReadFromD(f, wrote[j].blk, wrote[j].off, [data |-> <<>>, cnt |-> 0]) IN
            r.st = "ok" => r.data = Payload(j, wrote[j].n)
      /\ (file[i][1] = "p" => s.end = "eof" /\ Len(s.recs) = Len(wrote))
\* a file cut to any length: the sequential reader delivers a prefix of the written records and ends with an
\* error or a clean end of file
TruncSafe == \A c \in 0..Len(file) :
   LET s == SeqReadD(SubSeq(file, 1, c), 0, 0) IN
   /\ Len(s.recs) <= Len(wrote)
   /\ \A j \in 1..Len(s.recs) : s.recs[j].data = Payload(j, wrote[j].n)

\* no record starts in a tail that cannot hold a header, and padding appears only there
PositionsValid == \A i \in 1..Len(wrote) : wrote[i].off + H < B
=============================================================================
