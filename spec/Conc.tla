-------------------------------- MODULE Conc --------------------------------
(***************************************************************************)
(* C08 / C09.  Several client goroutines on one database at the            *)
(* granularity of the code's critical sections (db.go Put / Delete / Get / *)
(* ListKeys / Sync / Stat, batch.go NewBatch..Commit, merge.go Merge,      *)
(* iterator creation in index/sharded_index.go).  Locks are explicit:      *)
(*   mu     db.mu, a reader/writer lock: a writer or a set of readers      *)
(*   each index operation is atomic (it holds its shard's lock)            *)
(* Every step carries the set of shared variables it reads and writes and  *)
(* the locks it holds, so that the lockset invariant NoRace can be stated. *)
(* Each client runs one call, chosen at Init from Menu; TLC explores every *)
(* interleaving.                                                           *)
(*                                                                         *)
(* Bug switches reproduce the pinned tree:                                 *)
(*   IndexOutsideLock     Put/Delete updated the index after unlocking     *)
(*   DeleteCheckUnlocked  Delete tested existence before taking the lock   *)
(*   ListKeysSizeLater    ListKeys sized its result after the snapshot     *)
(*   CloneUnderRLock      iterator creation cloned the B-tree under RLock  *)
(*   UnlockedReads        Sync/Merge read activeFile/isMerging unlocked    *)
(*   UnlockAroundSync     (seeded change C08-a) the append releases db.mu  *)
(*                        around its fsync and re-acquires it afterwards   *)
(*   BgReadsUnlocked      the background-merge goroutine (db.go Open,      *)
(*                        Options.EnableBackgroundMerge) compared and      *)
(*                        stored db.bytesWrite without taking db.mu        *)
(***************************************************************************)
EXTENDS Integers, Sequences, FiniteSets, TLC

CONSTANTS Clients, Keys, Menu, Bug
Has(b) == b \in Bug
Nil == 0

VARIABLES pc,      \* client -> program counter
          call,    \* client -> the call it runs: [op, k, v]
          mu,      \* db.mu: [w |-> the writer or "-", r |-> set of readers]
          log,     \* the data files as one sequence of [k, v] (v = Nil: tombstone)
          idx,     \* key -> position in log (0 = none)
          loc,     \* client -> locals (looked-up position, snapshot, ...)
          res,     \* client -> result ("-" until the call returned)
          merging, \* db.isMerging
          reg,     \* ghost: the linearizable register per key (updated at the linearization point)
          seen,    \* ghost: client -> register value at its Get's linearization point
          got      \* client -> the value its Get returned
vars == <<pc, call, mu, log, idx, loc, res, merging, reg, seen, got>>

ValAt(p) == IF p = 0 THEN Nil ELSE log[p].v
Live == {k \in Keys : idx[k] # 0}
NoLock == [w |-> "-", r |-> {}]
Free == mu = NoLock
HoldsW(c) == mu.w = c
Readers == mu.r
CanR == mu.w = "-"
WLock(c) == [w |-> c, r |-> {}]
AddR(c) == [mu EXCEPT !.r = @ \cup {c}]
DelR(c) == [mu EXCEPT !.r = @ \ {c}]

Init == /\ call \in [Clients -> Menu]
        /\ pc = [c \in Clients |-> "start"]
        /\ mu = NoLock /\ log = <<>> /\ idx = [k \in Keys |-> 0]
        /\ loc = [c \in Clients |-> 0] /\ res = [c \in Clients |-> "-"]
        /\ merging = FALSE /\ reg = [k \in Keys |-> Nil] /\ seen = [c \in Clients |-> Nil]
        /\ got = [c \in Clients |-> Nil]

Goto(c, p) == pc' = [pc EXCEPT ![c] = p]
Ret(c, r) == res' = [res EXCEPT ![c] = r] /\ Goto(c, "done")

(* ---- Put: lock; append; index update; unlock ---------------------------------- *)
PutLock(c)   == /\ pc[c] = "start" /\ call[c].op = "Put" /\ Free /\ mu' = WLock(c) /\ Goto(c, "p.append")
                /\ UNCHANGED <<call, log, idx, loc, res, merging, reg, seen, got>>
PutAppend(c) == /\ pc[c] = "p.append" /\ log' = Append(log, [k |-> call[c].k, v |-> call[c].v])
                /\ loc' = [loc EXCEPT ![c] = Len(log) + 1]
                /\ Goto(c, IF Has("UnlockAroundSync") THEN "p.sync" ELSE IF Has("IndexOutsideLock") THEN "p.unlock" ELSE "p.index")
                /\ UNCHANGED <<call, mu, idx, res, merging, reg, seen, got>>
\* the fsync that follows the append under SyncStrategy Always / Threshold happens inside the critical section;
\* Bug "UnlockAroundSync": the lock is dropped for its duration
SyncDrop(c)  == /\ pc[c] \in {"p.sync", "d.sync"} /\ mu' = NoLock
                /\ Goto(c, IF pc[c] = "p.sync" THEN "p.resync" ELSE "d.resync")
                /\ UNCHANGED <<call, log, idx, loc, res, merging, reg, seen, got>>
SyncRetake(c) == /\ pc[c] \in {"p.resync", "d.resync"} /\ Free /\ mu' = WLock(c)
                 /\ Goto(c, IF pc[c] = "p.resync" THEN "p.index" ELSE "d.index")
                 /\ UNCHANGED <<call, log, idx, loc, res, merging, reg, seen, got>>
PutIndex(c)  == /\ pc[c] = "p.index" /\ idx' = [idx EXCEPT ![call[c].k] = loc[c]]
                /\ reg' = [reg EXCEPT ![call[c].k] = call[c].v]               \* linearization point
                /\ (IF Has("IndexOutsideLock") THEN Ret(c, "ok") ELSE Goto(c, "p.unlock") /\ UNCHANGED res)
                /\ UNCHANGED <<call, mu, log, loc, merging, seen, got>>
PutUnlock(c) == /\ pc[c] = "p.unlock" /\ mu' = NoLock
                /\ (IF Has("IndexOutsideLock") THEN Goto(c, "p.index") /\ UNCHANGED res ELSE Ret(c, "ok"))
                /\ UNCHANGED <<call, log, idx, loc, merging, reg, seen, got>>

(* ---- Delete: lock; existence check; append tombstone; index delete; unlock ------ *)
DelCheck0(c) == /\ pc[c] = "start" /\ call[c].op = "Delete" /\ Has("DeleteCheckUnlocked")
                /\ (IF idx[call[c].k] = 0 THEN Ret(c, "ok") ELSE Goto(c, "d.lock") /\ UNCHANGED res)
                /\ UNCHANGED <<call, mu, log, idx, loc, merging, reg, seen, got>>
DelLock(c)   == /\ (pc[c] = "d.lock" \/ (pc[c] = "start" /\ call[c].op = "Delete" /\ ~Has("DeleteCheckUnlocked")))
                /\ Free /\ mu' = WLock(c)
                /\ Goto(c, IF Has("DeleteCheckUnlocked") THEN "d.append" ELSE "d.check")
                /\ UNCHANGED <<call, log, idx, loc, res, merging, reg, seen, got>>
DelCheck(c)  == /\ pc[c] = "d.check"
                /\ (IF idx[call[c].k] = 0 THEN mu' = NoLock /\ Ret(c, "ok")
                    ELSE Goto(c, "d.append") /\ UNCHANGED <<mu, res>>)
                /\ UNCHANGED <<call, log, idx, loc, merging, reg, seen, got>>
DelAppend(c) == /\ pc[c] = "d.append" /\ log' = Append(log, [k |-> call[c].k, v |-> Nil])
                /\ Goto(c, IF Has("UnlockAroundSync") THEN "d.sync" ELSE IF Has("IndexOutsideLock") THEN "d.unlock" ELSE "d.index")
                /\ UNCHANGED <<call, mu, idx, loc, res, merging, reg, seen, got>>
DelIndex(c)  == /\ pc[c] = "d.index"
                /\ idx' = [idx EXCEPT ![call[c].k] = 0] /\ reg' = [reg EXCEPT ![call[c].k] = Nil]
                /\ LET r == IF idx[call[c].k] = 0 THEN "indexfail" ELSE "ok" IN
                   IF Has("IndexOutsideLock") THEN Ret(c, r)
                   ELSE /\ loc' = [loc EXCEPT ![c] = IF r = "ok" THEN 1 ELSE 0] /\ Goto(c, "d.unlock")
                /\ (IF Has("IndexOutsideLock") THEN UNCHANGED loc ELSE UNCHANGED res)
                /\ UNCHANGED <<call, mu, log, merging, seen, got>>
DelUnlock(c) == /\ pc[c] = "d.unlock" /\ mu' = NoLock
                /\ (IF Has("IndexOutsideLock") THEN Goto(c, "d.index") /\ UNCHANGED res
                    ELSE Ret(c, IF loc[c] = 1 THEN "ok" ELSE "indexfail"))
                /\ UNCHANGED <<call, log, idx, loc, merging, reg, seen, got>>

(* ---- Get: index lookup (atomic); read under the read lock ------------------------- *)
GetLookup(c) == /\ pc[c] = "start" /\ call[c].op = "Get"
                /\ loc' = [loc EXCEPT ![c] = idx[call[c].k]]
                /\ seen' = [seen EXCEPT ![c] = reg[call[c].k]]                 \* linearization point
                /\ (IF idx[call[c].k] = 0 THEN Ret(c, "notfound") ELSE Goto(c, "g.rlock") /\ UNCHANGED res)
                /\ UNCHANGED <<call, mu, log, idx, merging, reg, got>>
GetRLock(c)  == /\ pc[c] = "g.rlock" /\ CanR /\ mu' = AddR(c) /\ Goto(c, "g.read")
                /\ UNCHANGED <<call, log, idx, loc, res, merging, reg, seen, got>>
GetRead(c)   == /\ pc[c] = "g.read" /\ mu' = DelR(c) /\ Ret(c, "ok") /\ got' = [got EXCEPT ![c] = ValAt(loc[c])]
                /\ UNCHANGED <<call, log, idx, loc, merging, reg, seen>>

(* ---- ListKeys: snapshot of the index, then the result slice ------------------------ *)
LkSnap(c) == /\ pc[c] = "start" /\ call[c].op = "ListKeys"
             /\ loc' = [loc EXCEPT ![c] = Cardinality(Live)] /\ Goto(c, "lk.size")
             /\ UNCHANGED <<call, mu, log, idx, res, merging, reg, seen, got>>
\* the pinned code sized the slice by the *current* index size and indexed it while walking the snapshot
LkSize(c) == /\ pc[c] = "lk.size"
             /\ Ret(c, IF Has("ListKeysSizeLater") /\ Cardinality(Live) < loc[c] THEN "panic" ELSE "ok")
             /\ UNCHANGED <<call, mu, log, idx, loc, merging, reg, seen, got>>

(* ---- Sync / Stat: under the lock ----------------------------------------------------- *)
SyLock(c)   == /\ pc[c] = "start" /\ call[c].op \in {"Sync", "Stat"}
               /\ (IF call[c].op = "Sync" THEN Free /\ mu' = WLock(c) ELSE CanR /\ mu' = AddR(c))
               /\ Goto(c, "sy.unlock") /\ UNCHANGED <<call, log, idx, loc, res, merging, reg, seen, got>>
SyUnlock(c) == /\ pc[c] = "sy.unlock" /\ mu' = (IF call[c].op = "Sync" THEN NoLock ELSE DelR(c)) /\ Ret(c, "ok")
               /\ UNCHANGED <<call, log, idx, loc, merging, reg, seen, got>>

(* ---- Batch of two puts: holds the lock from NewBatch to Commit ------------------------ *)
BaLock(c)   == /\ pc[c] = "start" /\ call[c].op = "Batch" /\ Free /\ mu' = WLock(c) /\ Goto(c, "b.commit")
               /\ UNCHANGED <<call, log, idx, loc, res, merging, reg, seen, got>>
BaCommit(c) == /\ pc[c] = "b.commit"
               /\ log' = log \o << [k |-> call[c].k, v |-> call[c].v], [k |-> call[c].k2, v |-> call[c].v] >>
               /\ idx' = [idx EXCEPT ![call[c].k] = Len(log) + 1, ![call[c].k2] = Len(log) + 2]
               /\ reg' = [reg EXCEPT ![call[c].k] = call[c].v, ![call[c].k2] = call[c].v]
               /\ Goto(c, "b.unlock") /\ UNCHANGED <<call, mu, loc, res, merging, seen, got>>
BaUnlock(c) == /\ pc[c] = "b.unlock" /\ mu' = NoLock /\ Ret(c, "ok")
               /\ UNCHANGED <<call, log, idx, loc, merging, reg, seen, got>>

(* ---- Merge: lock, check/set isMerging, unlock; scan (index lookups); lock, clear, unlock - *)
\* the engine's own background goroutine (call "BgMerge"): once per tick it reads the write counter (fixed code:
\* under the read lock), merges if something was written, and reads the counter again
BgRLock(c)  == /\ pc[c] \in {"start", "bg.after"} /\ call[c].op = "BgMerge" /\ ~Has("BgReadsUnlocked")
               /\ CanR /\ mu' = AddR(c) /\ Goto(c, IF pc[c] = "start" THEN "bg.read1" ELSE "bg.read2")
               /\ UNCHANGED <<call, log, idx, loc, res, merging, reg, seen, got>>
BgRead(c)   == /\ \/ pc[c] \in {"bg.read1", "bg.read2"} /\ mu' = DelR(c)
                  \/ pc[c] \in {"start", "bg.after"} /\ call[c].op = "BgMerge" /\ Has("BgReadsUnlocked") /\ UNCHANGED mu
               /\ (IF pc[c] \in {"bg.read1", "start"} THEN Goto(c, "bg.merge") /\ UNCHANGED res ELSE Ret(c, "ok"))
               /\ UNCHANGED <<call, log, idx, loc, merging, reg, seen, got>>
IsMergeStart(c) == (pc[c] = "start" /\ call[c].op = "Merge") \/ pc[c] = "bg.merge"
MeRet(c, r) == IF call[c].op = "BgMerge" THEN Goto(c, "bg.after") /\ UNCHANGED res ELSE Ret(c, r)
MeLock(c)   == /\ IsMergeStart(c) /\ Free /\ mu' = WLock(c) /\ Goto(c, "m.check")
               /\ UNCHANGED <<call, log, idx, loc, res, merging, reg, seen, got>>
MeCheck(c)  == /\ pc[c] = "m.check" /\ mu' = NoLock
               /\ (IF merging THEN MeRet(c, "merging") /\ UNCHANGED <<merging, loc>>
                   ELSE merging' = TRUE /\ loc' = [loc EXCEPT ![c] = 1] /\ Goto(c, "m.scan") /\ UNCHANGED res)
               /\ UNCHANGED <<call, log, idx, reg, seen, got>>
\* one record of the snapshot of the log taken at the rotation (positions 1..Len(log) at that time are immutable)
MeScan(c)   == /\ pc[c] = "m.scan"
               /\ (IF loc[c] > Len(log) THEN Goto(c, "m.end") /\ UNCHANGED loc
                   ELSE loc' = [loc EXCEPT ![c] = @ + 1] /\ UNCHANGED pc)     \* reads idx[log[loc].k] atomically
               /\ UNCHANGED <<call, mu, log, idx, res, merging, reg, seen, got>>
MeEnd(c)    == /\ pc[c] = "m.end" /\ Free /\ merging' = FALSE /\ MeRet(c, "ok")
               /\ UNCHANGED <<call, mu, log, idx, loc, reg, seen, got>>

Step(c) == \/ PutLock(c) \/ PutAppend(c) \/ PutIndex(c) \/ PutUnlock(c) \/ SyncDrop(c) \/ SyncRetake(c)
           \/ DelCheck0(c) \/ DelLock(c) \/ DelCheck(c) \/ DelAppend(c) \/ DelIndex(c) \/ DelUnlock(c)
           \/ GetLookup(c) \/ GetRLock(c) \/ GetRead(c)
           \/ LkSnap(c) \/ LkSize(c) \/ SyLock(c) \/ SyUnlock(c)
           \/ BaLock(c) \/ BaCommit(c) \/ BaUnlock(c)
           \/ MeLock(c) \/ MeCheck(c) \/ MeScan(c) \/ MeEnd(c)
           \/ BgRLock(c) \/ BgRead(c)
AllDone == \A c \in Clients : pc[c] = "done"
Next == (\E c \in Clients : Step(c)) \/ (AllDone /\ UNCHANGED vars)
Spec == Init /\ [][Next]_vars

(* ---- properties ------------------------------------------------------------------------ *)
\* C08: the order in which racing writes reach the log is the order in which they win
LastPos(k) == LET S == {i \in 1..Len(log) : log[i].k = k} IN
              IF S = {} THEN 0 ELSE LET m == CHOOSE i \in S : \A j \in S : j <= i IN IF log[m].v = Nil THEN 0 ELSE m
QuiescentLiveEqualsRecovered == AllDone => \A k \in Keys : idx[k] = LastPos(k)
\* C08: linearizability by refinement: the index always shows the register; a Get returns what the register
\* held at its lookup step
IndexShowsRegister == (\A c \in Clients : pc[c] \notin {"p.index", "d.index"}) => \A k \in Keys : ValAt(idx[k]) = reg[k]
GetReturnsRegister == \A c \in Clients : (pc[c] = "done" /\ call[c].op = "Get") => got[c] = seen[c]
\* C09: no panic, no internal-inconsistency error for individually valid calls, no stuck state
NoPanic == \A c \in Clients : res[c] # "panic"
NoInternalError == \A c \in Clients : res[c] # "indexfail"
NoDeadlock == AllDone \/ ENABLED (\E c \in Clients : Step(c))

\* C09, lockset discipline: the shared variables the *next* step of a client touches, and whether it holds mu
\*   reads / writes: sets of variable names; w: holds the write lock; r: holds the read lock
Acc(c) ==
  LET p == pc[c]  o == call[c].op  W == HoldsW(c)  R == c \in Readers IN
  CASE p \in {"p.append", "d.append", "b.commit"} -> [rd |-> {"activeFile"}, wr |-> {"activeFile", "counters"}, w |-> W, r |-> R]
    [] p \in {"p.index", "d.index"} -> [rd |-> {}, wr |-> {"counters"}, w |-> W, r |-> R]
    [] p = "start" /\ o = "Sync" /\ Has("UnlockedReads") -> [rd |-> {"activeFile"}, wr |-> {}, w |-> FALSE, r |-> FALSE]
    [] p = "start" /\ o = "Merge" /\ Has("UnlockedReads") -> [rd |-> {"activeFile", "isMerging", "counters"}, wr |-> {}, w |-> FALSE, r |-> FALSE]
    [] p = "m.check" -> [rd |-> {"isMerging", "activeFile", "counters"}, wr |-> {"isMerging", "activeFile"}, w |-> W, r |-> R]
    [] p = "m.end" -> [rd |-> {}, wr |-> {"isMerging"}, w |-> ~Has("UnlockedReads"), r |-> FALSE]
    [] p = "sy.unlock" /\ o = "Stat" -> [rd |-> {"counters", "activeFile"}, wr |-> {}, w |-> W, r |-> R]
    [] p = "g.read" -> [rd |-> {"activeFile"}, wr |-> {}, w |-> W, r |-> R]
    [] p \in {"bg.read1", "bg.read2"} -> [rd |-> {"counters"}, wr |-> {}, w |-> W, r |-> R]
    [] p \in {"start", "bg.after"} /\ o = "BgMerge" /\ Has("BgReadsUnlocked") -> [rd |-> {"counters"}, wr |-> {}, w |-> FALSE, r |-> FALSE]
    [] p = "start" /\ o = "ListKeys" -> [rd |-> {}, wr |-> (IF Has("CloneUnderRLock") THEN {"btree.cow"} ELSE {}), w |-> FALSE, r |-> FALSE]
    [] OTHER -> [rd |-> {}, wr |-> {}, w |-> W, r |-> R]
\* two accesses conflict if one writes what the other touches; they are protected if both hold mu and not both
\* merely in read mode (a writer excludes everybody who also takes the lock; someone who takes no lock is
\* excluded by nobody)
Conflict(a, b) == /\ ((a.wr \cap (b.rd \cup b.wr)) \cup (b.wr \cap a.rd)) # {}
                  /\ ~((a.w \/ a.r) /\ (b.w \/ b.r) /\ ~(a.r /\ b.r))
\* m.end takes the lock itself in the fixed code (modelled by its guard Free and w = TRUE)
NoRace == \A a, b \in Clients : a # b =>
             ~(Conflict(Acc(a), Acc(b)) /\ pc[a] # "done" /\ pc[b] # "done")
=============================================================================
