--------------------------- MODULE DataTypesTrace ---------------------------
(***************************************************************************)
(* C19.  Judges command/reply logs of the real datatype.DataTypeService    *)
(* (format R) with DTSem: every reply must be one the abstract type admits *)
(* in the current abstract state; restarts change nothing.  Events:        *)
(*   reset   {n}                 keys are 1..n                             *)
(*   cmd     {k, c, x, v, sc, exp, err, b, n, vres, tname}                 *)
(*   restart {err}               Close + NewDataTypeService                *)
(*   crashed {k, c, x, v, sc, exp}  the process died at an I/O call        *)
(*                               boundary inside this command; the run     *)
(*                               continues on the directory image: the     *)
(*                               command took effect entirely or not at    *)
(*                               all (every update is one batch, C04), so  *)
(*                               the key is in its state before or in a    *)
(*                               state the command may leave               *)
(***************************************************************************)
EXTENDS DTSem, Json
CONSTANTS TraceFile, Enforce
Trace == ndJsonDeserialize(TraceFile)
VARIABLES l, abs
vars == <<l, abs>>
E == Trace[l]
Is(ev) == l <= Len(Trace) /\ Trace[l].ev = ev
Chk(name) == name \in Enforce
Fail(what) == Print(<<"CHECK-FAILED", "line", l, what>>, FALSE)
Init == l = 1 /\ abs = <<>>
TReset == Is("reset") /\ l' = l + 1 /\ abs' = [k \in 1..E.n |-> None]
\* an absent field / member / element is reported by the service either as (nil, nil) or as key-not-found
Logged(e) == IF e.err = "notfound" /\ e.c \in {"HGet", "ZScore", "LPop", "RPop"} THEN R("ok", FALSE, 0, 0)
             ELSE IF e.c = "ZScore" /\ ~e.b THEN R(e.err, FALSE, 0, 0)
             ELSE R(e.err, e.b, e.n, e.vres)
TypeOK(e, s) == e.c # "Type" \/ e.err # "ok" \/ e.tname = TypeName(s)
TCmd == /\ Is("cmd") /\ l' = l + 1
        /\ LET e == E
               cmd == [c |-> e.c, x |-> e.x, v |-> e.v, sc |-> e.sc, exp |-> e.exp]
               match == {p \in Exec(abs[e.k], cmd) : p[1] = Logged(e) /\ TypeOK(e, abs[e.k])}
           IN IF ~Chk("types") THEN \E p \in Exec(abs[e.k], cmd) : abs' = [abs EXCEPT ![e.k] = p[2]]
              ELSE IF match = {} THEN Fail("types") /\ UNCHANGED abs
              ELSE \E p \in match : abs' = [abs EXCEPT ![e.k] = p[2]]
TRestart == /\ Is("restart") /\ l' = l + 1 /\ UNCHANGED abs
            /\ (IF Chk("types") /\ E.err # "ok" THEN Fail("restart") ELSE TRUE)
TCrashed == /\ Is("crashed") /\ l' = l + 1
            /\ LET e == E
                   cmd == [c |-> e.c, x |-> e.x, v |-> e.v, sc |-> e.sc, exp |-> e.exp]
               IN \E s \in {abs[e.k]} \cup {p[2] : p \in Exec(abs[e.k], cmd)} : abs' = [abs EXCEPT ![e.k] = s]
Next == TReset \/ TCmd \/ TRestart \/ TCrashed
Spec == Init /\ [][Next]_vars
ASSUME TLCSet(1, 0)
HW == IF l > TLCGet(1) THEN TLCSet(1, l) ELSE TRUE
Accepted == IF TLCGet(1) = Len(Trace) + 1 THEN TRUE ELSE Print(<<"REJECT at line", TLCGet(1)>>, FALSE)
=============================================================================
