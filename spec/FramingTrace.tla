----------------------------- MODULE FramingTrace -----------------------------
(***************************************************************************)
(* Binds FramingOps to the real datafile.DataFile (format F).  One "case"  *)
(* event = one data file: it had `abs` bytes, then the records `recs` were *)
(* appended (singly with WriteLogRecord / WriteHintRecord, or as one       *)
(* multi-record flush with WriteStagedLogRecord + FlushStaged); logged are *)
(* the positions and sizes reported at write time, DataFile.Size(), the    *)
(* physical size, what the sequential reader delivered from the start of   *)
(* the appended part, whether random reads returned the written bytes, and *)
(* whether the other I/O back-end produced byte-identical files.  Offsets  *)
(* and block numbers are logged relative to a (possibly empty) hole the    *)
(* file begins with: the arithmetic is periodic in the block size.         *)
(* Every number is recomputed here with the real constants.                *)
(***************************************************************************)
EXTENDS FramingOps, Json

CONSTANTS TraceFile, Enforce
Trace == ndJsonDeserialize(TraceFile)
VARIABLE l
E == Trace[l]
Chk(name) == name \in Enforce
Fail(what) == Print(<<"CHECK-FAILED", "line", l, what>>, FALSE)
Must(name, cond) == IF Chk(name) /\ ~cond THEN Fail(name) ELSE TRUE

\* batch ids beyond TLC's integers are logged as the length of their uvarint encoding (btl)
LogLen(r) == IF r.bt >= 0 THEN RecLen(r.klen, r.vlen, r.bt)
             ELSE 1 + VarintLen(r.klen) + VarintLen(r.vlen) + r.btl + r.klen + r.vlen
PayloadLen(r) == IF r.kind = "hint" THEN HintLen(r.hf, r.hb, r.ho, r.hs, r.klen) ELSE LogLen(r)

RECURSIVE Ends(_, _, _)
\* absolute end offsets after each record: Ends(recs, i, abs)[j] = end after record j
Ends(recs, i, abs) == IF i > Len(recs) THEN <<>>
                      ELSE LET L == Layout(abs, PayloadLen(recs[i])) IN <<L.end>> \o Ends(recs, i + 1, L.end)
StartOf(recs, ends, abs, i) == IF i = 1 THEN abs ELSE ends[i - 1]

CaseOK(e) ==
   LET ends == Ends(e.recs, 1, e.abs)
       final == IF Len(e.recs) = 0 THEN e.abs ELSE ends[Len(e.recs)]
   IN /\ Must("pos", \A i \in 1..Len(e.recs) :
              LET L == Layout(StartOf(e.recs, ends, e.abs, i), PayloadLen(e.recs[i])) IN
              \/ e.recs[i].kind = "hint"       \* WriteHintRecord does not report a position
              \/ (e.recs[i].blk = L.blk /\ e.recs[i].off = L.off /\ e.recs[i].size = L.size))
      /\ Must("size", e.logical = final /\ e.physical = final)
      \* the sequential reader, started where the appended part begins, delivers exactly the appended records
      \* (noseq: the case lies behind a hole of 2^17 blocks - offsets around 4 GiB - where only positional reads are possible)
      /\ Must("seq", e.noseq \/
                     /\ e.seqerr = "ok" /\ Len(e.seq) = Len(e.recs)
                     /\ \A i \in 1..Len(e.recs) :
                          LET L == Layout(StartOf(e.recs, ends, e.abs, i), PayloadLen(e.recs[i])) IN
                          /\ e.seq[i].same
                          /\ e.recs[i].kind = "hint" \/ (e.seq[i].blk = L.blk /\ e.seq[i].off = L.off /\ e.seq[i].size = L.size))
      /\ Must("rand", \A i \in 1..Len(e.rd) : e.rd[i])
      /\ Must("xio", e.xio)

Init == l = 1
Next == /\ l <= Len(Trace) /\ l' = l + 1
        /\ IF E.ev = "case" THEN CaseOK(E) ELSE TRUE
Spec == Init /\ [][Next]_l

ASSUME TLCSet(1, 0)
HW == IF l > TLCGet(1) THEN TLCSet(1, l) ELSE TRUE
Accepted == IF TLCGet(1) = Len(Trace) + 1 THEN TRUE
            ELSE Print(<<"REJECT at line", TLCGet(1)>>, FALSE)
=============================================================================
