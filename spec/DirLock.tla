------------------------------ MODULE DirLock ------------------------------
(***************************************************************************)
(* C16.  The directory lock (db.go Open / Close with gofrs/flock on        *)
(* <dir>/.lock): openers are (process, goroutine) pairs; an Open first     *)
(* tries the lock (non-blocking), then loads the directory, which fails    *)
(* if the directory is corrupt - and must then release the lock.           *)
(* Bug "OpenLeaksLock" reproduces the pinned tree (a failed Open kept the  *)
(* lock for the life of the process).                                      *)
(***************************************************************************)
EXTENDS Integers, FiniteSets, TLC
CONSTANTS Openers, MaxSteps, Bug
VARIABLES st,       \* opener -> "closed" | "loading" | "open"
          holder,   \* the opener holding the lock, or "none"
          corrupt,  \* the directory cannot be loaded
          last,     \* opener -> result of its last Open attempt
          steps
vars == <<st, holder, corrupt, last, steps>>
Init == /\ st = [o \in Openers |-> "closed"] /\ holder = "none" /\ corrupt \in BOOLEAN
        /\ last = [o \in Openers |-> "-"] /\ steps = 0
Tick == steps < MaxSteps /\ steps' = steps + 1
\* Open, step 1: TryLock
TryOpen(o) == /\ Tick /\ st[o] = "closed"
              /\ IF holder = "none"
                 THEN holder' = o /\ st' = [st EXCEPT ![o] = "loading"] /\ UNCHANGED last
                 ELSE last' = [last EXCEPT ![o] = "inuse"] /\ UNCHANGED <<holder, st>>
              /\ UNCHANGED corrupt
\* Open, step 2: load the directory
Load(o) == /\ Tick /\ st[o] = "loading"
           /\ IF corrupt
              THEN /\ st' = [st EXCEPT ![o] = "closed"] /\ last' = [last EXCEPT ![o] = "error"]
                   /\ holder' = IF "OpenLeaksLock" \in Bug THEN holder ELSE "none"
              ELSE st' = [st EXCEPT ![o] = "open"] /\ last' = [last EXCEPT ![o] = "ok"] /\ UNCHANGED holder
           /\ UNCHANGED corrupt
Close(o) == /\ Tick /\ st[o] = "open" /\ st' = [st EXCEPT ![o] = "closed"] /\ holder' = "none"
            /\ UNCHANGED <<corrupt, last>>
\* somebody repairs / damages the directory while nobody has it open
Flip == /\ Tick /\ holder = "none" /\ corrupt' = ~corrupt /\ UNCHANGED <<st, holder, last>>
Next == (\E o \in Openers : TryOpen(o) \/ Load(o) \/ Close(o)) \/ Flip
Spec == Init /\ [][Next]_vars

AtMostOneOpen == Cardinality({o \in Openers : st[o] \in {"open", "loading"}}) <= 1
\* the lock is held exactly while somebody is open or opening: so after Close and after a failed Open
\* the directory can be opened again
LockReleased == (holder = "none") <=> (\A o \in Openers : st[o] = "closed")
HolderIsOpener == holder # "none" => st[holder] \in {"open", "loading"}
=============================================================================
