------------------------------ MODULE DirLock ------------------------------
(***************************************************************************)
(* C16.  The directory lock (db.go Open / Close with gofrs/flock on        *)
(* <dir>/.lock): openers are (process, goroutine) pairs; an Open first     *)
(* tries the lock (non-blocking), then loads the directory in three        *)
(* phases, each of which can fail - and must then release the lock:        *)
(*   names  loadMergeFiles / loadDataFiles list the directory (a stray     *)
(*          file name fails here, before any data file is open and before  *)
(*          an active file exists)                                         *)
(*   files  the data files are opened one by one (some are already open    *)
(*          when one cannot be opened)                                     *)
(*   index  hint file and data files are read (a damaged record fails      *)
(*          here, with every file open and the active file set)            *)
(* Bug "OpenLeaksLock" reproduces the pinned tree (a failed Open kept the  *)
(* lock for the life of the process); Bug "EarlyFailLeaksLock" is a        *)
(* release that is only reached once an active file exists; Bug           *)
(* "CloseUnlocksFirst" is a Close that drops the lock before it has closed *)
(* its files.                                                              *)
(***************************************************************************)
EXTENDS Integers, FiniteSets, TLC
CONSTANTS Openers, MaxSteps, Bug
Phases == <<"names", "files", "index">>
Kinds == {"no", "names", "files", "index"}     \* where loading the directory fails ("no": it loads)
VARIABLES st,       \* opener -> "closed" | "names" | "files" | "index" | "open" | "closing"
          holder,   \* the opener holding the lock, or "none"
          corrupt,  \* the phase in which the directory cannot be loaded, or "no"
          last,     \* opener -> result of its last Open attempt
          steps
vars == <<st, holder, corrupt, last, steps>>
Init == /\ st = [o \in Openers |-> "closed"] /\ holder = "none" /\ corrupt \in Kinds
        /\ last = [o \in Openers |-> "-"] /\ steps = 0
Tick == steps < MaxSteps /\ steps' = steps + 1
\* Open, step 1: TryLock
TryOpen(o) == /\ Tick /\ st[o] = "closed"
              /\ IF holder = "none"
                 THEN holder' = o /\ st' = [st EXCEPT ![o] = "names"] /\ UNCHANGED last
                 ELSE last' = [last EXCEPT ![o] = "inuse"] /\ UNCHANGED <<holder, st>>
              /\ UNCHANGED corrupt
\* Open, steps 2-4: one loading phase
NextPhase(p) == IF p = "names" THEN "files" ELSE IF p = "files" THEN "index" ELSE "open"
Leaks(p) == "OpenLeaksLock" \in Bug \/ ("EarlyFailLeaksLock" \in Bug /\ p \in {"names", "files"})
Load(o) == /\ Tick /\ st[o] \in {"names", "files", "index"}
           /\ IF corrupt = st[o]
              THEN /\ st' = [st EXCEPT ![o] = "closed"] /\ last' = [last EXCEPT ![o] = "error"]
                   /\ holder' = IF Leaks(st[o]) THEN holder ELSE "none"
              ELSE /\ st' = [st EXCEPT ![o] = NextPhase(st[o])]
                   /\ last' = IF NextPhase(st[o]) = "open" THEN [last EXCEPT ![o] = "ok"] ELSE last
                   /\ UNCHANGED holder
           /\ UNCHANGED corrupt
\* Close, step 1: flush and close the data files; step 2: release the lock (Bug "CloseUnlocksFirst": the lock is
\* released at the beginning of Close, while the files are still open)
CloseFiles(o) == /\ Tick /\ st[o] = "open" /\ st' = [st EXCEPT ![o] = "closing"]
                 /\ holder' = IF "CloseUnlocksFirst" \in Bug THEN "none" ELSE holder
                 /\ UNCHANGED <<corrupt, last>>
CloseUnlock(o) == /\ Tick /\ st[o] = "closing" /\ st' = [st EXCEPT ![o] = "closed"] /\ holder' = "none"
                  /\ UNCHANGED <<corrupt, last>>
\* an opener's process dies without Close: the operating system releases the lock it held (openers of one process
\* die together; modelled per opener, since at most one opener is not closed)
Die(o) == /\ Tick /\ st[o] # "closed" /\ st' = [st EXCEPT ![o] = "closed"]
          /\ holder' = IF holder = o THEN "none" ELSE holder
          /\ last' = [last EXCEPT ![o] = "died"] /\ UNCHANGED corrupt
\* the holder uses its database (writes, Merge with its temporary database on the sibling directory): the lock stays
\* (Bug "MergeDropsLock", seeded change C16-d: closing the temporary database of a Merge released the shared lock)
Work(o) == /\ Tick /\ st[o] = "open" /\ holder' = IF "MergeDropsLock" \in Bug THEN "none" ELSE holder
           /\ UNCHANGED <<st, corrupt, last>>
\* somebody repairs / damages the directory while nobody has it open
Flip == /\ Tick /\ holder = "none" /\ corrupt' \in Kinds \ {corrupt} /\ UNCHANGED <<st, holder, last>>
Next == (\E o \in Openers : TryOpen(o) \/ Load(o) \/ CloseFiles(o) \/ CloseUnlock(o) \/ Work(o) \/ Die(o)) \/ Flip
Spec == Init /\ [][Next]_vars

AtMostOneOpen == Cardinality({o \in Openers : st[o] # "closed"}) <= 1
\* the lock is held exactly while somebody is open or opening: so after Close and after a failed Open
\* the directory can be opened again
LockReleased == (holder = "none") <=> (\A o \in Openers : st[o] = "closed")
HolderIsOpener == holder # "none" => st[holder] # "closed"
=============================================================================
