----------------------------- MODULE FramingOps -----------------------------
(***************************************************************************)
(* Pure arithmetic of the block/chunk framing (datafile/data_file.go       *)
(* writeToBuf; datafile/log_record.go header lengths) over                 *)
(*   B  block size (32768 in the code),  H  chunk header (7 in the code).  *)
(* Shared by Framing.tla (byte-level exhaustive check), FramingLemmas.tla  *)
(* (real constants, every offset) and FramingTrace.tla (real DataFile).    *)
(***************************************************************************)
EXTENDS Integers, Sequences, FiniteSets, TLC

CONSTANTS B, H

(* ---- record lengths (log_record.go EncodeLogRecord / EncodeHintRecord) --- *)
RECURSIVE UvarintLen(_)
UvarintLen(u) == IF u < 128 THEN 1 ELSE 1 + UvarintLen(u \div 128)
VarintLen(x) == UvarintLen(2 * x)                       \* zig-zag encoding of x >= 0
RecLen(klen, vlen, batch) == 1 + VarintLen(klen) + VarintLen(vlen) + UvarintLen(batch) + klen + vlen
HintLen(fid, blk, off, size, klen) == UvarintLen(fid) + UvarintLen(blk) + UvarintLen(off) + UvarintLen(size) + klen

(* ---- the writer's arithmetic (writeToBuf) --------------------------------- *)
\* a block tail that cannot hold a header plus one byte is padded
NeedPad(o) == o + H >= B /\ o # B
RECURSIVE ChunksFrom(_, _)
ChunksFrom(n, room) == IF n <= room THEN 1 ELSE 1 + ChunksFrom(n - room, B - H)
\* layout of a payload of n >= 1 bytes appended to a file of abs bytes
Layout(abs, n) ==
   LET blk0 == abs \div B
       o0   == abs % B
       pad  == IF NeedPad(o0) THEN B - o0 ELSE 0
       blk  == IF pad > 0 THEN blk0 + 1 ELSE blk0
       off  == IF pad > 0 THEN 0 ELSE o0
       c    == ChunksFrom(n, B - off - H)
       size == c * H + n
   IN [blk |-> blk, off |-> off, pad |-> pad, chunks |-> c, size |-> size, end |-> abs + pad + size]

\* GetLogRecordDiskSize: the estimate used for rotation decisions (real constants only)
Estimate(klen, vlen) == LET s == 21 + klen + vlen + 10 + 1 IN s + H + ((s \div B) + 1) * H

=============================================================================
