------------------------------- MODULE XiXiKV -------------------------------
(***************************************************************************)
(* Mechanism-level specification of the xixi-kv engine (single process,    *)
(* one client thread plus the merge thread).  One action per critical      *)
(* section or file-system call of the code, so that Crash and PowerLoss    *)
(* can fall exactly where they can in the implementation:                  *)
(*                                                                         *)
(*   db.go    Put/Delete/appendLogRecord/sync/setActiveFile  PutBegin DelBegin IoStep Ack     *)
(*   batch.go NewBatch/Put/Delete/flushStaged/Commit         NewBatch BStage BCommit IoStep Ack *)
(*   merge.go Merge                                          MergeBegin MergeRm MergeMk MergeScan MergeMark *)
(*   merge.go loadMergeFiles (adoption at Open)              OpenLock AdoptStep               *)
(*   db.go    Open/loadDataFiles/loadIndexFromDataFiles      OpenLoad                         *)
(*   db.go    Sync, Close                                    SyncCall CloseCall               *)
(*                                                                         *)
(* Sizes are abstract: every record occupies 1 unit except puts of a value *)
(* in BigVals, which occupy MaxLimit + 1 (a record that alone exceeds every *)
(* file-size limit).  The limit is an option of each Open: lim is the      *)
(* limit in force, chosen anew from Limits by every Open after the first.  *)
(*                                                                         *)
(* (Further switches - LeftoverKept, LazyHint, AdoptBreaks - reproduce   *)
(* seeded changes; their counterexamples are replayed on the engine as     *)
(* directed tests, see lib/mbt.py.)                                        *)
(* The constant Bug is a set of names of deviations that make the model    *)
(* behave like the pinned tree did before the corresponding "fix:" commit; *)
(* with Bug = {} the model is the intended design and all invariants hold. *)
(* The switches exist to show non-vacuity (TLC finds the counterexample)   *)
(* and to generate the scripts that demonstrate each defect on real code.  *)
(***************************************************************************)
EXTENDS Integers, Sequences, FiniteSets, TLC, KVSem

CONSTANTS Keys, Vals, BigVals,      \* key and value identities (positive integers); BigVals \subseteq Vals
          Limit,                    \* DataFileSize in units (of the first Open)
          Limits,                   \* the limits a later Open may choose (Options.DataFileSize is per Open)
          MaxOps, MaxBatch,         \* fuel: client calls, staged operations per batch
          MaxFaults, MaxMerges, MaxRestarts,
          SyncAlways,               \* SyncStrategy = Always (otherwise No)
          Features,                 \* subset of {"batch","syncbatch","merge","crash","powerloss","torn","restart","sync","delete"}
          Bug

Has(b)  == b \in Bug
Feat(f) == f \in Features

VARIABLES
  dir,      \* data directory: [file id -> sequence of records]
  dhint,    \* hint file of the data directory: sequence of [k, pos] (<<>> if none)
  mdir,     \* merge directory: [ex, files, hint, hintThere, marker]
  durable,  \* [file id -> number of leading records known to be on stable storage]
  lock,     \* the directory lock is held
  st,       \* "down" | "adopt" | "open" | "failed"
  active,   \* id of the active file
  index,    \* [Keys -> position] (KVSem.NoPos = none); position = [f, b, o, s, v], o = record number in the file
  total, reclaim,
  batch,    \* NoBatch or [id, sync, staged, ops]   (ops: ghost, issue-ordered list of all staged operations)
  merge,    \* NoMerge or the locals of a running Merge()
  adopt,    \* locals of a running Open
  pc,       \* remaining I/O micro-steps of the call in flight
  cur,      \* the call in flight
  acked,    \* ghost: sequence of acknowledged mutations, each [w |-> key :> value, mid |-> mutation id]
  floor,    \* ghost, set at a fault/Close: number of acknowledged mutations that must survive
  inflight, \* ghost, set at a fault: the write set of the call that was in flight (or <<>>)
  recok,    \* ghost: every recovery so far exposed an admissible mapping
  bk,       \* the last backup: [has, dir, view] (db.go Backup: every file's logical content, no lock, no merge directory)
  nextMid,  \* next mutation id (tags the records a call writes; ghost field mid of records)
  nextBid, nops, nfaults, nmerges, nrestarts,
  cfg       \* [lim |-> the file-size limit in force, maxlim |-> the largest limit used so far (ghost)]

disk  == <<dir, dhint, mdir, durable>>
ghost == <<acked, floor, inflight, recok, bk>>
ctrs  == <<nextMid, nextBid, nops, nfaults, nmerges, nrestarts>>
vars  == <<dir, dhint, mdir, durable, lock, st, active, index, total, reclaim, batch, merge, adopt,
           pc, cur, acked, floor, inflight, recok, bk, nextMid, nextBid, nops, nfaults, nmerges, nrestarts, cfg>>

(* ---- records and files -------------------------------------------------- *)
PUT == 0  DEL == 1  FIN == 2  TORN == 9
MaxLimit == CHOOSE x \in Limits \cup {Limit} : \A y \in Limits \cup {Limit} : y <= x
Size(t, v) == IF t = PUT /\ v \in BigVals THEN MaxLimit + 1 ELSE 1
Rec(t, k, v, bt, mid) == [t |-> t, k |-> k, v |-> v, bt |-> bt, s |-> Size(t, v), mid |-> mid]
Fids == DOMAIN dir
RECURSIVE SumS(_, _)
SumS(rs, i) == IF i > Len(rs) THEN 0 ELSE rs[i].s + SumS(rs, i + 1)
Bytes(rs) == SumS(rs, 1)
MaxOf(S) == CHOOSE x \in S : \A y \in S : y <= x
MinOf(S) == CHOOSE x \in S : \A y \in S : x <= y
MaxLenOf(d) == MaxOf({Len(d[f]) : f \in DOMAIN d} \cup {0})
RECURSIVE AscSeq(_)
AscSeq(S) == IF S = {} THEN <<>> ELSE <<MinOf(S)>> \o AscSeq(S \ {MinOf(S)})

MaxLen == MaxLenOf(dir)
NoBatch == [id |-> 0]
NoMerge == [on |-> FALSE]
NoAdopt == [ph |-> "none"]
NoMark  == [nm |-> 0, cnt |-> 0]
NoMdir  == [ex |-> FALSE, files |-> <<>>, hint |-> <<>>, hintThere |-> FALSE, marker |-> NoMark]
Idle    == [op |-> "idle"]
NoInflight == [w |-> <<>>, mid |-> 0]

(* what a reader sees through the index: the record at the indexed position, *including its key* *)
Resolve(k) ==
    LET p == index[k] IN
    IF p.f = -1 THEN Nil
    ELSE IF p.f \notin Fids \/ p.o > Len(dir[p.f]) THEN -2                      \* dangling position
    ELSE LET r == dir[p.f][p.o] IN IF r.k = k /\ r.t = PUT THEN r.v ELSE -1     \* another key's record
View == [k \in Keys |-> Resolve(k)]

ApplyW(m, w) == [k \in Keys |-> IF k \in DOMAIN w THEN w[k] ELSE m[k]]
RECURSIVE MapOfSeq(_, _, _)
MapOfSeq(m, sq, i) == IF i > Len(sq) THEN m ELSE MapOfSeq(ApplyW(m, sq[i].w), sq, i + 1)
MapOf(sq) == MapOfSeq(EmptyMap(Keys), sq, 1)
Model == MapOf(acked)

(* ---- recovery (db.go loadIndexFromDataFiles, as KVSem.RecFold) ----------- *)
\* the records of file f as the sequential reader delivers them: it stops at a torn record
Readable(f) == LET rs == dir[f]
                   T == {i \in 1..Len(rs) : rs[i].t = TORN}
               IN IF T = {} THEN rs ELSE SubSeq(rs, 1, MinOf(T) - 1)
ScanRecs(f) == LET rs == Readable(f) IN
               [i \in 1..Len(rs) |-> [f |-> f, b |-> 0, o |-> i, s |-> rs[i].s, t |-> rs[i].t,
                                      k |-> rs[i].k, v |-> rs[i].v, bt |-> rs[i].bt]]
RECURSIVE ScanFrom(_, _)
ScanFrom(fs, i) == IF i > Len(fs) THEN <<>> ELSE ScanRecs(fs[i]) \o ScanFrom(fs, i + 1)
\* scan of the data files with id >= from, continuing fold state s0
RecoverFrom(s0, from) == RecFold(s0, ScanFrom(AscSeq({f \in Fids : f >= from}), 1), 1)
FullRecover == RecoverFrom(RecInit(Keys), 0)
HasTorn == \E f \in Fids : \E i \in 1..Len(dir[f]) : dir[f][i].t = TORN

\* index load from the hint file (merge.go loadIndexFromHintFile)
RECURSIVE HintFold(_, _, _)
HintFold(s, h, i) == IF i > Len(h) THEN s
                     ELSE HintFold([s EXCEPT !.idx[h[i].k] = h[i].pos, !.total = @ + h[i].pos.s], h, i + 1)
HintMaxFid(h) == IF h = <<>> THEN 0 ELSE MaxOf({h[i].pos.f : i \in 1..Len(h)})

(* ---- I/O micro-steps ------------------------------------------------------ *)
\* one append of records rs (one write call), with the rotation rule of appendLogRecord
NeedRotate(sz) == Bytes(dir[active]) + sz > cfg.lim
AppendSteps(rs, rotate, syncAfter) ==
    (IF rotate THEN << [io |-> "sync"], [io |-> "create"] >> ELSE <<>>)
    \o << [io |-> "write", recs |-> rs] >>
    \o (IF syncAfter THEN << [io |-> "sync"] >> ELSE <<>>)

CanCall == st = "open" /\ cur = Idle /\ pc = <<>> /\ nops < MaxOps

Init ==
  /\ dir = (0 :> <<>>) /\ dhint = <<>> /\ mdir = NoMdir /\ durable = (0 :> 0)
  /\ lock = TRUE /\ st = "open" /\ active = 0
  /\ index = [k \in Keys |-> NoPos] /\ total = 0 /\ reclaim = 0
  /\ batch = NoBatch /\ merge = NoMerge /\ adopt = NoAdopt /\ pc = <<>> /\ cur = Idle
  /\ acked = <<>> /\ floor = 0 /\ inflight = NoInflight /\ recok = TRUE /\ bk = [has |-> FALSE]
  /\ nextMid = 1 /\ nextBid = 1 /\ nops = 0 /\ nfaults = 0 /\ nmerges = 0 /\ nrestarts = 0
  /\ cfg = [lim |-> Limit, maxlim |-> Limit]

(* ---- Put / Delete / Sync ---------------------------------------------------- *)
PutBegin(k, v) ==
  /\ CanCall /\ batch = NoBatch
  /\ LET r == Rec(PUT, k, v, 0, nextMid) IN
     /\ pc' = AppendSteps(<<r>>, NeedRotate(r.s), SyncAlways)
     /\ cur' = [op |-> "put", w |-> (k :> v), mid |-> nextMid]
  /\ nops' = nops + 1 /\ nextMid' = nextMid + 1
  /\ UNCHANGED <<disk, lock, st, active, index, total, reclaim, batch, merge, adopt, ghost,
                 nextBid, nfaults, nmerges, nrestarts>>

\* Delete of an absent key writes nothing and returns at once
DelBegin(k) ==
  /\ Feat("delete") /\ CanCall /\ batch = NoBatch
  /\ IF index[k] = NoPos
     THEN pc' = <<>> /\ cur' = [op |-> "noop"]
     ELSE LET r == Rec(DEL, k, Nil, 0, nextMid) IN
          /\ pc' = AppendSteps(<<r>>, NeedRotate(r.s), SyncAlways)
          /\ cur' = [op |-> "del", w |-> (k :> Nil), mid |-> nextMid]
  /\ nops' = nops + 1 /\ nextMid' = nextMid + 1
  /\ UNCHANGED <<disk, lock, st, active, index, total, reclaim, batch, merge, adopt, ghost,
                 nextBid, nfaults, nmerges, nrestarts>>

SyncCall ==
  /\ Feat("sync") /\ CanCall /\ batch = NoBatch
  /\ pc' = << [io |-> "sync"] >> /\ cur' = [op |-> "noop"] /\ nops' = nops + 1
  /\ UNCHANGED <<disk, lock, st, active, index, total, reclaim, batch, merge, adopt, ghost,
                 nextMid, nextBid, nfaults, nmerges, nrestarts>>

(* ---- one I/O call ------------------------------------------------------------ *)
IoStep ==
  /\ st = "open" /\ pc # <<>>
  /\ LET s == Head(pc) IN
     CASE s.io = "sync"   -> /\ durable' = [durable EXCEPT ![active] = Len(dir[active])]
                             /\ UNCHANGED <<dir, active>>
       [] s.io = "create" -> /\ dir' = dir @@ ((active + 1) :> <<>>)
                             /\ durable' = durable @@ ((active + 1) :> 0)
                             /\ active' = active + 1
       [] s.io = "write"  -> /\ dir' = [dir EXCEPT ![active] = @ \o s.recs]
                             /\ UNCHANGED <<durable, active>>
  /\ pc' = Tail(pc)
  /\ UNCHANGED <<dhint, mdir, lock, st, index, total, reclaim, batch, merge, adopt, cur, ghost, ctrs>>

(* ---- index / counter update for the records of the call in flight --------------- *)
\* (db.go Put/Delete after the append; batch.go flushStaged after the flush)
RECURSIVE ApplyWritten(_, _, _, _)
\* s = [idx, total, reclaim]; applies the records of rs (= dir[f]) from position i on that carry cur.mid
ApplyWritten(s, rs, f, i) ==
    IF i > Len(rs) THEN s
    ELSE LET r == rs[i] IN
         IF r.mid # cur.mid \/ r.t = FIN THEN ApplyWritten(s, rs, f, i + 1)
         ELSE LET old == s.idx[r.k].s
                  pos == [f |-> f, b |-> 0, o |-> i, s |-> r.s, v |-> r.v]
                  cnt == IF r.bt # 0 /\ Has("BatchNoTotal") THEN 0 ELSE r.s
              IN ApplyWritten(
                   IF r.t = DEL THEN [idx |-> [s.idx EXCEPT ![r.k] = NoPos], total |-> s.total + cnt,
                                      reclaim |-> s.reclaim + r.s + old]
                   ELSE [idx |-> [s.idx EXCEPT ![r.k] = pos], total |-> s.total + cnt, reclaim |-> s.reclaim + old],
                   rs, f, i + 1)
Applied(f) == ApplyWritten([idx |-> index, total |-> total, reclaim |-> reclaim], dir[f], f, 1)
\* all records of the call in flight, in every file in ascending order (a batch flushed in several pieces)
RECURSIVE ApplyFiles(_, _, _)
ApplyFiles(s, fs, i) == IF i > Len(fs) THEN s ELSE ApplyFiles(ApplyWritten(s, dir[fs[i]], fs[i], 1), fs, i + 1)
AppliedAll == ApplyFiles([idx |-> index, total |-> total, reclaim |-> reclaim], AscSeq(Fids), 1)

Ack ==
  /\ st = "open" /\ pc = <<>> /\ cur # Idle
  /\ CASE cur.op \in {"put", "del"} ->
            /\ index' = Applied(active).idx /\ total' = Applied(active).total /\ reclaim' = Applied(active).reclaim
            /\ acked' = Append(acked, [w |-> cur.w, mid |-> cur.mid])
            /\ UNCHANGED batch
       [] cur.op = "noop" -> UNCHANGED <<index, total, reclaim, acked, batch>>
       [] cur.op = "flush" ->      \* intermediate flush of a large batch: the batch stays open and (fix) the index is
                                   \* not touched before Commit (Bug "BatchFlushPublishes": it was updated here)
            /\ (IF Has("BatchFlushPublishes")
                THEN index' = Applied(cur.f).idx /\ total' = Applied(cur.f).total /\ reclaim' = Applied(cur.f).reclaim
                ELSE UNCHANGED <<index, total, reclaim>>)
            /\ batch' = [batch EXCEPT !.staged = <<cur.then>>]
            /\ UNCHANGED acked
       [] cur.op = "commit" ->
            /\ (IF Has("BatchFlushPublishes")
                THEN index' = Applied(cur.f).idx /\ total' = Applied(cur.f).total /\ reclaim' = Applied(cur.f).reclaim
                ELSE index' = AppliedAll.idx /\ total' = AppliedAll.total /\ reclaim' = AppliedAll.reclaim)
            /\ acked' = Append(acked, [w |-> cur.w, mid |-> cur.mid])
            /\ batch' = NoBatch
  /\ cur' = Idle
  /\ UNCHANGED <<disk, lock, st, active, merge, adopt, pc, floor, inflight, recok, bk, ctrs>>

(* ---- batches ---------------------------------------------------------------------- *)
NewBatch(sy) ==
  /\ Feat("batch") /\ CanCall /\ batch = NoBatch /\ (sy => Feat("syncbatch"))
  /\ batch' = [id |-> nextBid, sync |-> sy, staged |-> <<>>, ops |-> <<>>, mid |-> nextMid]
  /\ nextBid' = nextBid + 1 /\ nops' = nops + 1 /\ nextMid' = nextMid + 1
  /\ UNCHANGED <<disk, lock, st, active, index, total, reclaim, merge, adopt, pc, cur, ghost,
                 nfaults, nmerges, nrestarts>>

KindOf(v) == IF v = Nil THEN DEL ELSE PUT
StagedBytes(sg) == Bytes([i \in 1..Len(sg) |-> [s |-> Size(KindOf(sg[i].v), sg[i].v)]])
StagedPos(sg, k) == {i \in 1..Len(sg) : sg[i].k = k}
TaggedRecs(sg) == [i \in 1..Len(sg) |-> Rec(KindOf(sg[i].v), sg[i].k, sg[i].v, batch.id, batch.mid)]
\* batch.go flushStaged: one write of all staged records; (fix) rotate first if they do not fit
FlushRotates(sg) == /\ ~Has("BatchOverfill") /\ sg # <<>> /\ Bytes(dir[active]) > 0
                    /\ Bytes(dir[active]) + StagedBytes(sg) + 1 > cfg.lim
FlushSteps(sg) == AppendSteps(TaggedRecs(sg), FlushRotates(sg), batch.sync)
FlushFile(sg) == IF FlushRotates(sg) THEN active + 1 ELSE active
\* the write set of the whole batch so far (ghost)
WriteSet(ops) == [k \in {ops[i].k : i \in 1..Len(ops)} |-> LastStaged(ops, k).v]

\* whether key k currently exists from the batch's point of view: its own latest flushed record, else the index
FlushedFor(k) == {<<f, i>> \in {<<f, i>> \in Fids \X (1..MaxLen) : i <= Len(dir[f])} :
                     dir[f][i].mid = batch.mid /\ dir[f][i].k = k /\ dir[f][i].t # FIN}
PresentForBatch(k) ==
    IF Has("BatchFlushPublishes") \/ FlushedFor(k) = {} THEN index[k] # NoPos
    ELSE LET last == CHOOSE p \in FlushedFor(k) : \A q \in FlushedFor(k) : q[1] < p[1] \/ (q[1] = p[1] /\ q[2] <= p[2])
         IN dir[last[1]][last[2]].t = PUT

\* Batch.Put / Batch.Delete: stage; if the staged data would no longer fit one file, flush what is staged
\* (flushStagedAndUpdateFile: flush, index update, then rotate) and stage the new record alone
BStage(k, v) ==
  /\ CanCall /\ batch # NoBatch /\ Len(batch.ops) < MaxBatch
  /\ nops' = nops + 1
  /\ LET sg == batch.staged
         hit == StagedPos(sg, k)
         newOps == Append(batch.ops, [k |-> k, v |-> v])
         nsz == Size(KindOf(v), v)
         flushFirst(osz) == StagedBytes(sg) - osz + nsz + 1 > cfg.lim
         doFlush ==
           /\ pc' = FlushSteps(sg) \o << [io |-> "sync"], [io |-> "create"] >>
           /\ cur' = [op |-> "flush", mid |-> batch.mid, f |-> FlushFile(sg), then |-> [k |-> k, v |-> v]]
           /\ batch' = [batch EXCEPT !.ops = newOps]
     IN IF hit # {} THEN
          LET i == CHOOSE i \in hit : TRUE
              osz == Size(KindOf(sg[i].v), sg[i].v)
              v2 == IF v # Nil /\ sg[i].v = Nil /\ Has("BatchPutAfterDelete") THEN Nil ELSE v
          IN IF v # Nil /\ flushFirst(osz) THEN doFlush
             ELSE \* the key is already staged: rewrite its staged record in place
                  /\ batch' = [batch EXCEPT !.staged[i].v = v2, !.ops = newOps]
                  /\ UNCHANGED <<pc, cur>>
        ELSE IF v = Nil /\ ~PresentForBatch(k) THEN
          \* delete of a key that is neither staged nor stored: nothing to do
          /\ batch' = [batch EXCEPT !.ops = newOps] /\ UNCHANGED <<pc, cur>>
        ELSE IF flushFirst(0) THEN doFlush
        ELSE /\ batch' = [batch EXCEPT !.staged = Append(sg, [k |-> k, v |-> v]), !.ops = newOps]
             /\ UNCHANGED <<pc, cur>>
  /\ UNCHANGED <<disk, lock, st, active, index, total, reclaim, merge, adopt, ghost,
                 nextMid, nextBid, nfaults, nmerges, nrestarts>>

\* Commit: flush the staged records, then the sealing record (same batch id), flushing it too for a Sync batch
BCommit ==
  /\ st = "open" /\ cur = Idle /\ pc = <<>> /\ batch # NoBatch
  /\ IF batch.staged = <<>>
     THEN /\ pc' = <<>> /\ cur' = [op |-> "commit", mid |-> batch.mid, f |-> active, w |-> WriteSet(batch.ops)]
     ELSE LET fin == Rec(FIN, 0, Nil, IF Has("FinBatch0") THEN 0 ELSE batch.id, batch.mid)
          IN /\ pc' = FlushSteps(batch.staged) \o << [io |-> "write", recs |-> <<fin>>] >>
                         \o (IF batch.sync /\ ~Has("SealAfterSync") THEN << [io |-> "sync"] >> ELSE <<>>)
             /\ cur' = [op |-> "commit", mid |-> batch.mid, f |-> FlushFile(batch.staged), w |-> WriteSet(batch.ops)]
  /\ UNCHANGED <<disk, lock, st, active, index, total, reclaim, batch, merge, adopt, ghost, ctrs>>

(* ---- Merge (merge.go) --------------------------------------------------------------- *)
\* under the lock: rotate the active file and snapshot the set of files that take part
MergeBegin ==
  /\ Feat("merge") /\ CanCall /\ batch = NoBatch /\ ~merge.on /\ nmerges < MaxMerges
  /\ nmerges' = nmerges + 1
  /\ durable' = [durable EXCEPT ![active] = Len(dir[active])] @@ ((active + 1) :> 0)
  /\ dir' = dir @@ ((active + 1) :> <<>>)
  /\ active' = active + 1
  /\ merge' = [on |-> TRUE, ph |-> "rm", nm |-> active + 1, files |-> AscSeq(Fids), fi |-> 1, ri |-> 1, out |-> 0]
  /\ UNCHANGED <<dhint, mdir, lock, st, index, total, reclaim, batch, adopt, pc, cur, ghost,
                 nextMid, nextBid, nops, nfaults, nrestarts>>

\* remove a left-over merge directory: (fix) the marker goes first, so that a crash inside the
\* recursive removal cannot leave a marked directory with files missing
MergeRm ==
  /\ st = "open" /\ merge.on /\ merge.ph = "rm"
  /\ IF mdir.ex /\ mdir.marker.nm # 0
     THEN mdir' = [mdir EXCEPT !.marker = NoMark] /\ UNCHANGED merge
     ELSE \* (Bug "LeftoverKept", seeded change C06-a: a directory without a marker is not removed)
          /\ mdir' = IF Has("LeftoverKept") THEN mdir ELSE NoMdir
          /\ merge' = [merge EXCEPT !.ph = "mk"]
  /\ UNCHANGED <<dir, dhint, durable, lock, st, active, index, total, reclaim, batch, adopt, pc, cur, ghost, ctrs>>

MergeMk ==
  /\ st = "open" /\ merge.on /\ merge.ph = "mk"
  \* a fresh directory with an empty first file and an empty hint file (Bug "LazyHint", seeded change C06-c: the hint
  \* file is created only when the first record is rewritten); a directory that was kept is appended to
  /\ mdir' = IF mdir.ex THEN [mdir EXCEPT !.hintThere = TRUE, !.files = IF 0 \in DOMAIN @ THEN @ ELSE @ @@ (0 :> <<>>)]
             ELSE [ex |-> TRUE, files |-> (0 :> <<>>), hint |-> <<>>, hintThere |-> ~Has("LazyHint"), marker |-> NoMark]
  /\ merge' = [merge EXCEPT !.ph = "scan"]
  /\ UNCHANGED <<dir, dhint, durable, lock, st, active, index, total, reclaim, batch, adopt, pc, cur, ghost, ctrs>>

\* one record of the scan: rewritten iff the live index still points at it
MergeScan ==
  /\ st = "open" /\ merge.on /\ merge.ph = "scan"
  /\ IF merge.fi > Len(merge.files) THEN
        merge' = [merge EXCEPT !.ph = "mark"] /\ UNCHANGED mdir
     ELSE LET f == merge.files[merge.fi] IN
     IF merge.ri > Len(dir[f]) THEN
        merge' = [merge EXCEPT !.fi = @ + 1, !.ri = 1] /\ UNCHANGED mdir
     ELSE
        LET r == dir[f][merge.ri]
            live == r.t = PUT /\ r.k \in Keys /\ index[r.k].f = f /\ index[r.k].o = merge.ri
            o == merge.out
            rot == Bytes(mdir.files[o]) + r.s > cfg.lim           \* appendLogRecord's rotation rule on the output
            o2 == IF rot THEN o + 1 ELSE o
            r2 == [r EXCEPT !.bt = IF Has("MergeKeepsBatchId") THEN r.bt ELSE 0]
        IN IF ~live THEN merge' = [merge EXCEPT !.ri = @ + 1] /\ UNCHANGED mdir
           ELSE IF rot /\ o2 >= merge.nm /\ ~Has("MergeClobbers") THEN
                \* (fix) the output would reach a file that did not take part: give up, nothing is marked
                merge' = NoMerge /\ UNCHANGED mdir
           ELSE LET fl == IF o2 \in DOMAIN mdir.files THEN [mdir.files EXCEPT ![o2] = Append(@, r2)]
                          ELSE mdir.files @@ (o2 :> <<r2>>)
                    pos == [f |-> o2, b |-> 0, o |-> Len(fl[o2]), s |-> r.s, v |-> r.v]
                IN /\ mdir' = [mdir EXCEPT !.files = fl, !.hint = Append(@, [k |-> r.k, pos |-> pos]), !.hintThere = TRUE]
                   /\ merge' = [merge EXCEPT !.ri = @ + 1, !.out = o2]
  /\ UNCHANGED <<dir, dhint, durable, lock, st, active, index, total, reclaim, batch, adopt, pc, cur, ghost, ctrs>>

\* the marker is written last; it names the first file that did not take part and the number of rewritten files
\* (fix) the active file is flushed first: a record the scan dropped because a newer one existed must not
\* outlive that newer one's loss in a power failure (Bug "MergeMarksUnflushed": no flush)
MergeMark ==
  /\ st = "open" /\ merge.on /\ merge.ph = "mark"
  /\ Has("MergeMarksUnflushed") \/ (cur = Idle /\ pc = <<>> /\ batch = NoBatch)   \* the flush takes the database lock
  /\ mdir' = [mdir EXCEPT !.marker = [nm |-> merge.nm, cnt |-> merge.out + 1]]
  /\ durable' = IF Has("MergeMarksUnflushed") THEN durable ELSE [durable EXCEPT ![active] = Len(dir[active])]
  /\ merge' = NoMerge
  /\ UNCHANGED <<dir, dhint, lock, st, active, index, total, reclaim, batch, adopt, pc, cur, ghost, ctrs>>

(* ---- Close, faults, Open ---------------------------------------------------------------- *)
Quiescent == st = "open" /\ cur = Idle /\ pc = <<>> /\ batch = NoBatch

CloseCall ==
  /\ Feat("restart") /\ Quiescent /\ ~merge.on /\ nrestarts < MaxRestarts
  /\ nrestarts' = nrestarts + 1
  /\ durable' = [f \in Fids |-> Len(dir[f])]      \* Close flushes every file
  /\ st' = "down" /\ lock' = FALSE /\ floor' = Len(acked) /\ inflight' = NoInflight
  /\ UNCHANGED <<dir, dhint, mdir, active, index, total, reclaim, batch, merge, adopt, pc, cur, acked, recok, bk,
                 nextMid, nextBid, nops, nfaults, nmerges>>

InFlightW == IF cur # Idle /\ cur.op \in {"put", "del", "commit"} THEN [w |-> cur.w, mid |-> cur.mid] ELSE NoInflight
Volatile == /\ st' = "down" /\ lock' = FALSE /\ batch' = NoBatch /\ merge' = NoMerge /\ adopt' = NoAdopt
            /\ pc' = <<>> /\ cur' = Idle /\ nfaults' = nfaults + 1

\* process death: the files keep everything written
Crash ==
  /\ Feat("crash") /\ st \in {"open", "adopt"} /\ nfaults < MaxFaults
  /\ Volatile
  /\ (IF st = "open" THEN floor' = Len(acked) /\ inflight' = InFlightW ELSE UNCHANGED <<floor, inflight>>)
  /\ UNCHANGED <<disk, active, index, total, reclaim, acked, recok, bk, nextMid, nextBid, nops, nmerges, nrestarts>>

\* an acknowledged mutation must survive a power failure iff all its records are below the durable mark
DurableMut(m) == \A f \in Fids : \A i \in 1..Len(dir[f]) : dir[f][i].mid = m => i <= durable[f]
FloorPL == MaxOf({p \in 0..Len(acked) : \A j \in 1..p : DurableMut(acked[j].mid)})

\* power failure: additionally every file loses any tail beyond its durable prefix, possibly inside a record
PowerLoss ==
  /\ Feat("powerloss") /\ st = "open" /\ nfaults < MaxFaults /\ ~merge.on    \* (the merge directory is assumed durable once marked)
  /\ Volatile
  /\ floor' = FloorPL /\ inflight' = InFlightW
  /\ \E cut \in [Fids -> 0..MaxLen], torn \in (IF Feat("torn") THEN BOOLEAN ELSE {FALSE}) :
       /\ \A f \in Fids : cut[f] >= durable[f] /\ cut[f] <= Len(dir[f])
       /\ torn => cut[active] < Len(dir[active])
       /\ dir' = [f \in Fids |-> IF torn /\ f = active
                                 THEN Append(SubSeq(dir[f], 1, cut[f]), [dir[f][cut[f] + 1] EXCEPT !.t = TORN])
                                 ELSE SubSeq(dir[f], 1, cut[f])]
  /\ durable' = [f \in Fids |-> IF durable[f] < Len(dir'[f]) THEN durable[f] ELSE Len(dir'[f])]
  /\ UNCHANGED <<dhint, mdir, active, index, total, reclaim, acked, recok, bk, nextMid, nextBid, nops, nmerges, nrestarts>>

\* Open, phase 1: take the lock; decide whether a finished merge must be adopted
OpenLock(newlim) ==
  /\ st = "down" /\ ~lock
  /\ lock' = TRUE /\ st' = "adopt"
  /\ cfg' = [lim |-> newlim, maxlim |-> IF newlim > cfg.maxlim THEN newlim ELSE cfg.maxlim]
  /\ IF mdir.ex /\ mdir.marker.nm # 0 /\ ~Has("MarkerUnreadable")
     THEN adopt' = [ph |-> "files", i |-> 0, nm |-> mdir.marker.nm, cnt |-> mdir.marker.cnt, sub |-> "rm"]
     ELSE adopt' = [ph |-> "load", i |-> 0, nm |-> 0, cnt |-> 0, sub |-> "-"]
  /\ UNCHANGED <<disk, active, index, total, reclaim, batch, merge, pc, cur, ghost, ctrs>>

\* (fix) crash-idempotent adoption: rename every rewritten file over its original; remove the originals
\* that have no rewritten counterpart; move the hint file if it is still there; drop the marker, then the directory
AdoptSafe ==
  CASE adopt.ph = "files" /\ adopt.i < adopt.cnt ->
         /\ IF adopt.i \in DOMAIN mdir.files
            THEN /\ dir' = [f \in Fids \cup {adopt.i} |-> IF f = adopt.i THEN mdir.files[adopt.i] ELSE dir[f]]
                 /\ durable' = [f \in Fids \cup {adopt.i} |-> IF f = adopt.i THEN Len(mdir.files[adopt.i]) ELSE durable[f]]
                 /\ mdir' = [mdir EXCEPT !.files = [g \in DOMAIN mdir.files \ {adopt.i} |-> mdir.files[g]]]
            ELSE UNCHANGED <<dir, durable, mdir>>
         \* (Bug "AdoptBreaks", seeded change C07-c: a rewritten file that is already gone ends the loop)
         /\ adopt' = [adopt EXCEPT !.i = IF Has("AdoptBreaks") /\ adopt.i \notin DOMAIN mdir.files THEN adopt.cnt ELSE @ + 1]
         /\ UNCHANGED <<dhint, st, lock>>
    [] adopt.ph = "files" /\ adopt.i >= adopt.cnt /\ adopt.i < adopt.nm ->
         /\ dir' = [f \in Fids \ {adopt.i} |-> dir[f]]
         /\ durable' = [f \in Fids \ {adopt.i} |-> durable[f]]
         /\ adopt' = [adopt EXCEPT !.i = @ + 1] /\ UNCHANGED <<dhint, mdir, st, lock>>
    [] adopt.ph = "files" /\ adopt.i >= adopt.cnt /\ adopt.i >= adopt.nm ->
         /\ (IF mdir.hintThere THEN dhint' = mdir.hint /\ mdir' = [mdir EXCEPT !.hintThere = FALSE, !.hint = <<>>]
                               ELSE UNCHANGED <<dhint, mdir>>)
         /\ adopt' = [adopt EXCEPT !.ph = "unmark"] /\ UNCHANGED <<dir, durable, st, lock>>
    [] adopt.ph = "unmark" ->
         /\ mdir' = [mdir EXCEPT !.marker = NoMark]
         /\ adopt' = [adopt EXCEPT !.ph = "rmdir"] /\ UNCHANGED <<dir, dhint, durable, st, lock>>
    [] adopt.ph = "rmdir" ->
         /\ mdir' = NoMdir /\ adopt' = [adopt EXCEPT !.ph = "load"] /\ UNCHANGED <<dir, dhint, durable, st, lock>>

\* the pinned order: per id remove the original, then rename the rewritten file (error if the original existed
\* and the rewritten one does not); then move the hint (error if absent); the directory is removed on every path
AdoptPinned ==
  CASE adopt.ph = "files" /\ adopt.i < adopt.nm /\ adopt.sub = "rm" ->
         /\ dir' = [f \in Fids \ {adopt.i} |-> dir[f]] /\ durable' = [f \in Fids \ {adopt.i} |-> durable[f]]
         /\ adopt' = [adopt EXCEPT !.sub = IF adopt.i \in Fids THEN "mvx" ELSE "mv"]
         /\ UNCHANGED <<dhint, mdir, st, lock>>
    [] adopt.ph = "files" /\ adopt.i < adopt.nm /\ adopt.sub \in {"mv", "mvx"} ->
         IF adopt.i \in DOMAIN mdir.files
         THEN /\ dir' = dir @@ (adopt.i :> mdir.files[adopt.i])
              /\ durable' = durable @@ (adopt.i :> Len(mdir.files[adopt.i]))
              /\ mdir' = [mdir EXCEPT !.files = [g \in DOMAIN mdir.files \ {adopt.i} |-> mdir.files[g]]]
              /\ adopt' = [adopt EXCEPT !.i = @ + 1, !.sub = "rm"] /\ UNCHANGED <<dhint, st, lock>>
         ELSE IF adopt.sub = "mv"
         THEN adopt' = [adopt EXCEPT !.i = @ + 1, !.sub = "rm"] /\ UNCHANGED <<dir, durable, dhint, mdir, st, lock>>
         ELSE /\ mdir' = NoMdir /\ st' = "failed" /\ lock' = Has("OpenLeaksLock") /\ adopt' = NoAdopt
              /\ UNCHANGED <<dir, durable, dhint>>
    [] adopt.ph = "files" /\ adopt.i >= adopt.nm ->
         IF mdir.hintThere
         THEN /\ dhint' = mdir.hint /\ mdir' = [mdir EXCEPT !.hintThere = FALSE, !.hint = <<>>]
              /\ adopt' = [adopt EXCEPT !.ph = "rmdir"] /\ UNCHANGED <<dir, durable, st, lock>>
         ELSE /\ mdir' = NoMdir /\ st' = "failed" /\ lock' = Has("OpenLeaksLock") /\ adopt' = NoAdopt
              /\ UNCHANGED <<dir, durable, dhint>>
    [] adopt.ph = "rmdir" ->
         /\ mdir' = NoMdir /\ adopt' = [adopt EXCEPT !.ph = "load"] /\ UNCHANGED <<dir, dhint, durable, st, lock>>

AdoptStep ==
  /\ st = "adopt" /\ adopt.ph \in {"files", "unmark", "rmdir"}
  /\ IF Has("AdoptPinnedOrder") THEN AdoptPinned ELSE AdoptSafe
  /\ UNCHANGED <<active, index, total, reclaim, batch, merge, pc, cur, ghost, ctrs>>

\* ghost bookkeeping at the end of a recovery: the mapping exposed must be an acknowledged prefix at or above
\* the floor, or everything acknowledged plus the whole call that was in flight; acked is rebased to it
Rebase(view) ==
    LET P == {p \in floor..Len(acked) : MapOf(SubSeq(acked, 1, p)) = view} IN
    \* when several explanations give the same mapping the longest is taken: the log may still hold the records
    \* of all of them, and a later fault may expose any prefix of those
    IF inflight.w # <<>> /\ ApplyW(MapOf(acked), inflight.w) = view
    THEN /\ acked' = Append(acked, inflight) /\ UNCHANGED recok
    ELSE IF P # {} THEN /\ acked' = SubSeq(acked, 1, MaxOf(P)) /\ UNCHANGED recok
    ELSE /\ recok' = FALSE /\ acked' = << [w |-> [k \in {k \in Keys : view[k] # Nil} |-> view[k]], mid |-> 0] >>

\* Open, last phase: open the files, build the index (hint + scan, or scan only), create an active file if none.
\* A torn tail is the end of the log: the file is cut back to its last whole record (required behaviour;
\* Bug "TornTailFails": Open reports an error instead).
OpenLoad ==
  /\ st = "adopt" /\ adopt.ph = "load"
  /\ IF HasTorn /\ Has("TornTailFails")
     THEN /\ st' = "failed" /\ lock' = Has("OpenLeaksLock")
          /\ UNCHANGED <<dir, durable, active, index, total, reclaim, acked, recok, floor, inflight>>
     ELSE LET hinted == adopt.nm > 0
              s0 == IF hinted THEN HintFold(RecInit(Keys), dhint, 1) ELSE RecInit(Keys)
              from == IF hinted THEN (IF HintMaxFid(dhint) < adopt.nm THEN HintMaxFid(dhint) ELSE adopt.nm) ELSE 0
              s == RecoverFrom(s0, from)
              newdir == IF Fids = {} THEN (0 :> <<>>) ELSE [f \in Fids |-> Readable(f)]
              view == [k \in Keys |->
                         LET p == s.idx[k] IN
                         IF p.f = -1 THEN Nil
                         ELSE IF p.f \notin DOMAIN newdir \/ p.o > Len(newdir[p.f]) THEN -2
                         ELSE LET r == newdir[p.f][p.o] IN IF r.k = k /\ r.t = PUT THEN r.v ELSE -1]
          IN /\ index' = s.idx /\ total' = s.total /\ reclaim' = s.reclaim
             /\ dir' = newdir
             /\ durable' = [f \in DOMAIN newdir |-> IF f \in Fids /\ durable[f] < Len(newdir[f]) THEN durable[f] ELSE Len(newdir[f])]
             /\ active' = MaxOf(DOMAIN newdir)
             /\ st' = "open" /\ UNCHANGED lock
             /\ (IF s.alien # 0 THEN recok' = FALSE /\ acked' = acked ELSE Rebase(view))
             /\ floor' = 0 /\ inflight' = NoInflight
  /\ adopt' = NoAdopt
  /\ UNCHANGED <<dhint, mdir, batch, merge, pc, cur, bk, ctrs>>

\* Backup (db.go): under the exclusive lock, a copy of every data file's logical content and of the hint file;
\* neither the lock file nor the merge directory is part of it
Backup ==
  /\ Feat("backup") /\ Quiescent
  /\ bk' = [has |-> TRUE, dir |-> dir, hint |-> dhint, view |-> View]
  /\ UNCHANGED <<disk, lock, st, active, index, total, reclaim, batch, merge, adopt, pc, cur, acked, floor, inflight, recok, ctrs>>

\* a failed Open can be retried
Retry == /\ st = "failed" /\ st' = "down"
         /\ UNCHANGED <<disk, lock, active, index, total, reclaim, batch, merge, adopt, pc, cur, ghost, ctrs>>

\* every action but Open leaves the configuration alone
Core ==
  \/ \E k \in Keys, v \in Vals : PutBegin(k, v)
  \/ \E k \in Keys : DelBegin(k)
  \/ SyncCall \/ IoStep \/ Ack
  \/ \E sy \in BOOLEAN : NewBatch(sy)
  \/ \E k \in Keys, v \in Vals \cup {Nil} : BStage(k, v)
  \/ BCommit
  \/ MergeBegin \/ MergeRm \/ MergeMk \/ MergeScan \/ MergeMark
  \/ CloseCall \/ Crash \/ PowerLoss \/ AdoptStep \/ OpenLoad \/ Retry \/ Backup
Next == (Core /\ UNCHANGED cfg) \/ \E nl \in Limits : OpenLock(nl)

Spec == Init /\ [][Next]_vars

(* ======================== properties ============================================ *)
RECURSIVE SumIdx(_)
SumIdx(S) == IF S = {} THEN 0 ELSE LET k == CHOOSE k \in S : TRUE IN index[k].s + SumIdx(S \ {k})
LiveBytes == SumIdx({k \in Keys : index[k].f # -1})

\* C01: whenever no call is in flight every key resolves to the model's value
MapSemantics == Quiescent => View = Model

\* C02/C08/C20: at quiescence a recovery of the directory as it is yields the live view
\* (so a clean restart, a process crash and a backup all preserve the mapping)
QuiescentLiveEqualsRecovered ==
    Quiescent /\ ~HasTorn => LET s == FullRecover IN ViewOf(s.idx) = Model /\ s.alien = 0

\* C20: opening the last backup as an independent database (a plain scan of its files: there is no merge
\* directory next to it) yields the mapping the source had when Backup was called, whatever happened since
BackupOpensToSnapshot ==
    bk.has => LET fs == AscSeq(DOMAIN bk.dir)
                  recs(f) == [i \in 1..Len(bk.dir[f]) |-> [f |-> f, b |-> 0, o |-> i, s |-> bk.dir[f][i].s, t |-> bk.dir[f][i].t,
                                                          k |-> bk.dir[f][i].k, v |-> bk.dir[f][i].v, bt |-> bk.dir[f][i].bt]]
                  RECURSIVE Cat(_)
                  Cat(i) == IF i > Len(fs) THEN <<>> ELSE recs(fs[i]) \o Cat(i + 1)
                  s == RecFold(RecInit(Keys), Cat(1), 1)
              IN ViewOf(s.idx) = bk.view /\ s.alien = 0

\* C02/C03/C04/C06/C07: every recovery exposed an admissible mapping (see Rebase), and Open never fails
RecoveredOK == recok
NeverFails  == st # "failed"

\* C17
AccountingExact == Quiescent => /\ reclaim >= 0 /\ reclaim <= total
                                /\ total - reclaim = LiveBytes
FileSizeRespected == \A f \in Fids : LET rs == dir[f] IN
    \/ Bytes(rs) <= cfg.maxlim \/ Len(rs) = 1 \/ (Len(rs) = 2 /\ rs[2].t = FIN)
    \/ \E i \in 1..Len(rs) : rs[i].t = TORN

\* C13: Always => every acknowledged plain record is flushed; a file is flushed before the engine rotates away;
\* an acknowledged Sync batch is flushed including its sealing record
SyncObligations ==
    /\ (SyncAlways /\ Quiescent => \A f \in Fids : \A i \in 1..Len(dir[f]) : dir[f][i].bt = 0 => i <= durable[f])
    /\ (st = "open" => \A f \in Fids : f # active => durable[f] = Len(dir[f]))
SyncBatchDurable ==
    (st = "open" /\ cur # Idle /\ cur.op = "commit" /\ pc = <<>> /\ batch # NoBatch /\ batch.sync)
        => DurableMut(cur.mid)

\* C16 (single-process part): the lock is held exactly while the database is open or opening
LockDiscipline == lock <=> st \in {"open", "adopt"}

\* C06: the Open that adopts a finished merge leaves no marked merge directory behind, and the files
\* below the marker id then hold only records that are live or superseded by a post-merge write
OpenDone == st = "adopt" /\ st' = "open"
MergeDirGone == [][OpenDone => mdir'.marker.nm = 0]_vars
AdoptedDirIsMinimal ==
    [][(OpenDone /\ adopt.nm > 0) =>
         \A f \in DOMAIN dir' : f < adopt.nm =>
            \A i \in 1..Len(dir'[f]) :
               LET r == dir'[f][i] IN
               \/ (index'[r.k].f = f /\ index'[r.k].o = i)
               \/ \E g \in DOMAIN dir' : g >= adopt.nm /\ \E j \in 1..Len(dir'[g]) : dir'[g][j].k = r.k]_vars
=============================================================================
