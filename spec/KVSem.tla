------------------------------- MODULE KVSem -------------------------------
(***************************************************************************)
(* Pure operators giving the sequential meaning of xixi-kv: the map, the   *)
(* batch overlay, and the recovery fold over a log (db.go                  *)
(* loadIndexFromDataFiles).  They are used by the mechanism specification  *)
(* XiXiKV.tla (checked exhaustively by TLC) and by every trace             *)
(* specification, so that what TLC proves about the design and what the    *)
(* real executions are judged against is one text.                         *)
(*                                                                         *)
(* Values are integers: Nil = 0 means "absent".                            *)
(***************************************************************************)
EXTENDS Integers, Sequences, FiniteSets

Nil == 0

(* ---- the map ---------------------------------------------------------- *)
EmptyMap(K) == [k \in K |-> Nil]
MPut(m, k, v) == [m EXCEPT ![k] = v]
MDel(m, k)    == [m EXCEPT ![k] = Nil]
Live(m)       == {k \in DOMAIN m : m[k] # Nil}

(* ---- batch overlay: staged is the issue-ordered sequence of [k, v],     *)
(* v = Nil for a delete (batch.go Put/Delete/Get/Commit) ------------------ *)
StagedOn(staged, k) == {i \in 1..Len(staged) : staged[i].k = k}
LastStaged(staged, k) ==
    LET S == StagedOn(staged, k) IN staged[CHOOSE i \in S : \A j \in S : j <= i]
\* what Batch.Get must return: the batch's own latest staged write, else the database
BGetVal(m, staged, k) ==
    IF StagedOn(staged, k) # {} THEN LastStaged(staged, k).v ELSE m[k]
\* what Commit must leave: the staged operations applied one by one in issue order
RECURSIVE FoldStaged(_, _, _)
FoldStaged(m, staged, i) ==
    IF i > Len(staged) THEN m
    ELSE FoldStaged([m EXCEPT ![staged[i].k] = staged[i].v], staged, i + 1)
CommitMap(m, staged) == FoldStaged(m, staged, 1)

(* ---- recovery fold ---------------------------------------------------- *)
(* A scanned record is [f, b, o, s, t, k, v, bt]: position (file, block,   *)
(* offset), size, type (0 put, 1 delete, 2 batch-finished), key, value,    *)
(* batch id (0 = plain).  The fold state is                                *)
(*   idx   : key -> the position/value the index would hold (NoPos = none) *)
(*   buf   : records of batches whose finished record has not been seen    *)
(*   alien : number of index entries recovery would create for keys that   *)
(*           nobody wrote (e.g. a finished record applied as a put)        *)
(***************************************************************************)
(*   total, reclaim : the two space counters as recovery computes them     *)
NoPos == [f |-> -1, b |-> 0, o |-> 0, s |-> 0, v |-> Nil]
PosOf(r) == [f |-> r.f, b |-> r.b, o |-> r.o, s |-> r.s, v |-> r.v]
RecInit(K) == [idx |-> [k \in K |-> NoPos], buf |-> <<>>, alien |-> 0, total |-> 0, reclaim |-> 0]

\* db.go updateIndex: every applied record counts into total; a tombstone and
\* every replaced entry count into reclaim
ApplyRec(st, r) ==
    IF r.k \notin DOMAIN st.idx
    THEN (IF r.t = 1 THEN [st EXCEPT !.total = @ + r.s, !.reclaim = @ + r.s]
                     ELSE [st EXCEPT !.alien = @ + 1, !.total = @ + r.s])
    ELSE LET old == st.idx[r.k].s IN
         IF r.t = 1 THEN [st EXCEPT !.idx[r.k] = NoPos, !.total = @ + r.s, !.reclaim = @ + r.s + old]
         ELSE [st EXCEPT !.idx[r.k] = PosOf(r), !.total = @ + r.s, !.reclaim = @ + old]

RECURSIVE ApplyAll(_, _, _)
ApplyAll(st, rs, i) == IF i > Len(rs) THEN st ELSE ApplyAll(ApplyRec(st, rs[i]), rs, i + 1)

RecStep(st, r) ==
    IF r.bt = 0 THEN ApplyRec(st, r)          \* plain record: applied at once (whatever its type)
    ELSE IF r.t = 2 THEN                        \* finished record: apply the batch's buffered records in order
        LET mine == SelectSeq(st.buf, LAMBDA x : x.bt = r.bt)
            rest == SelectSeq(st.buf, LAMBDA x : x.bt # r.bt)
        IN ApplyAll([st EXCEPT !.buf = rest], mine, 1)
    ELSE [st EXCEPT !.buf = Append(@, r)]      \* tagged record: wait for the finished record

RECURSIVE RecFold(_, _, _)
RecFold(st, rs, i) == IF i > Len(rs) THEN st ELSE RecFold(RecStep(st, rs[i]), rs, i + 1)

ViewOf(idx) == [k \in DOMAIN idx |-> idx[k].v]
=============================================================================
