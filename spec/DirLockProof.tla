---------------------------- MODULE DirLockProof ----------------------------
(***************************************************************************)
(* C16, unbounded: an inductive invariant of DirLock.tla proved with TLAPS *)
(* (any number of openers, any number of steps).  TLC checks the same      *)
(* invariants for bounded instances; this proof removes the bound for the  *)
(* model (it says nothing more about the code than the model does).        *)
(***************************************************************************)
EXTENDS DirLock, TLAPS

ASSUME NoneNotOpener == "none" \notin Openers
ASSUME NoBug == Bug = {}      \* the intended design (the Bug switch reproduces the pinned tree)

TypeOK == /\ st \in [Openers -> {"closed", "names", "files", "index", "open", "closing"}]
          /\ holder \in Openers \cup {"none"}
          /\ corrupt \in Kinds
          /\ steps \in Nat

\* stated without cardinalities: at most one opener is not closed, and it is the holder
Excl == \A o \in Openers : st[o] # "closed" => holder = o
Held == holder # "none" => st[holder] # "closed"
IndInv == TypeOK /\ Excl /\ Held

LEMMA InitInv == Init => IndInv
  BY NoneNotOpener, NoBug DEF Init, Kinds, IndInv, TypeOK, Excl, Held

LEMMA NextInv == IndInv /\ [Next]_vars => IndInv'
<1> SUFFICES ASSUME IndInv, [Next]_vars PROVE IndInv'
  OBVIOUS
<1>1. ASSUME NEW o \in Openers, TryOpen(o) PROVE IndInv'
  BY <1>1, NoneNotOpener DEF TryOpen, Tick, IndInv, TypeOK, Excl, Held
<1>2. ASSUME NEW o \in Openers, Load(o) PROVE IndInv'
  BY <1>2, NoneNotOpener, NoBug DEF Load, Leaks, NextPhase, Tick, IndInv, TypeOK, Excl, Held
<1>3. ASSUME NEW o \in Openers, CloseFiles(o) \/ CloseUnlock(o) PROVE IndInv'
  BY <1>3, NoneNotOpener, NoBug DEF CloseFiles, CloseUnlock, Tick, IndInv, TypeOK, Excl, Held
<1>6. ASSUME NEW o \in Openers, Work(o) PROVE IndInv'
  BY <1>6, NoneNotOpener, NoBug DEF Work, Tick, IndInv, TypeOK, Excl, Held
<1>7. ASSUME NEW o \in Openers, Die(o) PROVE IndInv'
  BY <1>7, NoneNotOpener DEF Die, Tick, IndInv, TypeOK, Excl, Held
<1>4. ASSUME Flip PROVE IndInv'
  BY <1>4, NoneNotOpener DEF Flip, Kinds, Tick, IndInv, TypeOK, Excl, Held
<1>5. ASSUME UNCHANGED vars PROVE IndInv'
  BY <1>5 DEF vars, IndInv, TypeOK, Excl, Held
<1> QED BY <1>1, <1>2, <1>3, <1>4, <1>5, <1>6, <1>7 DEF Next

\* the properties TLC checks follow from the inductive invariant
LEMMA InvImplies == IndInv => (LockReleased /\ HolderIsOpener)
  BY NoneNotOpener DEF IndInv, TypeOK, Excl, Held, LockReleased, HolderIsOpener

THEOREM Safety == Spec => [](LockReleased /\ HolderIsOpener)
<1>1. Init => IndInv  BY InitInv
<1>2. IndInv /\ [Next]_vars => IndInv'  BY NextInv
<1>3. IndInv => (LockReleased /\ HolderIsOpener)  BY InvImplies
<1> QED BY <1>1, <1>2, <1>3, PTL DEF Spec
=============================================================================
