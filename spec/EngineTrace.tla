----------------------------- MODULE EngineTrace -----------------------------
(***************************************************************************)
(* Trace specification for sequential executions of the real engine       *)
(* (format E of DESIGN.md).  A trace file is a concatenation of traces,    *)
(* each starting with a "reset" event.  Events:                            *)
(*   reset  n (number of keys; keys are 1..n in byte order), limit, prof   *)
(*   op     one public API call, logged at its return                      *)
(*   dump   full observation of the open database                          *)
(*   note   driver-side facts (canaries, cross-configuration digests)      *)
(* The abstract state (model, batch overlay) evolves from the *inputs*     *)
(* only, by the operators of KVSem; everything the engine *returned* or    *)
(* the driver *observed* is compared with it.  Which comparisons are       *)
(* enforced is selected by the constant Enforce, so that each property's   *)
(* check judges that property only.                                        *)
(***************************************************************************)
EXTENDS Integers, Sequences, FiniteSets, TLC, Json, KVSem

CONSTANTS TraceFile,   \* path of the ndjson file
          Enforce      \* set of check names to enforce

Trace == ndJsonDeserialize(TraceFile)

VARIABLES l,        \* next line to consume
          n,        \* number of keys of the current trace
          st,       \* "closed" | "open"
          model,    \* [1..n -> value id], Nil = absent
          batch,    \* [open, done, staged]
          rec,      \* recovery fold of everything scanned so far
          maxlim,   \* largest DataFileSize used so far in this trace
          mg,       \* the last successful Merge awaiting adoption: [on, nm (first file id that did not take part), snap]
          lastact,  \* id of the active file in the last dump
          hist,     \* [key -> set of values ever written to it] (C12: what a damaged database may still serve)
          orig,     \* C12: the records each file held before it was damaged: sequence of [name, recs]
          its,      \* C10: iterator handle -> [snap, match, rev, rc, moved]
          nops      \* ops since reset (diagnostics)
vars == <<l, n, st, model, batch, rec, maxlim, mg, lastact, hist, orig, its, nops>>

E == Trace[l]
Is(ev) == l <= Len(Trace) /\ Trace[l].ev = ev
K == 1..n
NoBatch == [open |-> FALSE, done |-> FALSE, staged |-> <<>>]
NoMg == [on |-> FALSE, nm |-> 0, snap |-> <<>>]
Chk(name) == name \in Enforce

\* report which enforced checks failed (trace validation is deterministic, so a
\* failing branch is a real failure)
Fail(what) == Print(<<"CHECK-FAILED", "line", l, what>>, FALSE)
Must(name, cond) == IF Chk(name) /\ ~cond THEN Fail(name) ELSE TRUE

Init == /\ l = 1 /\ n = 0 /\ st = "closed" /\ model = <<>> /\ batch = NoBatch
        /\ rec = RecInit({}) /\ maxlim = 0 /\ mg = NoMg /\ lastact = 0 /\ hist = <<>> /\ orig = <<>> /\ its = <<>> /\ nops = 0

TReset == /\ Is("reset")
          /\ l' = l + 1 /\ n' = E.n /\ st' = "closed"
          /\ model' = [k \in 1..E.n |-> Nil] /\ batch' = NoBatch
          /\ rec' = RecInit(1..E.n) /\ maxlim' = 0 /\ mg' = NoMg /\ lastact' = 0 /\ hist' = [k \in 1..E.n |-> {}] /\ orig' = <<>> /\ its' = <<>> /\ nops' = 0

(* ---- expected outcome of each call ------------------------------------ *)
\* <<expected error name, expected result, model', batch'>>
Expect(e) ==
  CASE e.op = "Put" ->
         IF e.k = 0 THEN <<"keyempty", 0, model, batch>>
         ELSE <<"ok", 0, MPut(model, e.k, e.v), batch>>
    [] e.op = "Delete" ->
         IF e.k = 0 THEN <<"keyempty", 0, model, batch>>
         ELSE <<"ok", 0, MDel(model, e.k), batch>>
    [] e.op = "Get" ->
         IF e.k = 0 THEN <<"keyempty", 0, model, batch>>
         ELSE IF model[e.k] = Nil THEN <<"notfound", 0, model, batch>>
         ELSE <<"ok", model[e.k], model, batch>>
    [] e.op = "NewBatch" -> <<"ok", 0, model, [open |-> TRUE, done |-> FALSE, staged |-> <<>>]>>
    [] e.op = "BPut" ->
         IF e.k = 0 THEN <<"keyempty", 0, model, batch>>
         ELSE IF batch.done THEN <<"batchcommitted", 0, model, batch>>
         ELSE <<"ok", 0, model, [batch EXCEPT !.staged = Append(@, [k |-> e.k, v |-> e.v])]>>
    [] e.op = "BDelete" ->
         IF e.k = 0 THEN <<"keyempty", 0, model, batch>>
         ELSE IF batch.done THEN <<"batchcommitted", 0, model, batch>>
         ELSE <<"ok", 0, model, [batch EXCEPT !.staged = Append(@, [k |-> e.k, v |-> Nil])]>>
    [] e.op = "BGet" ->
         IF e.k = 0 THEN <<"keyempty", 0, model, batch>>
         ELSE IF batch.done THEN <<"batchcommitted", 0, model, batch>>
         ELSE LET v == BGetVal(model, batch.staged, e.k) IN
              IF v = Nil THEN <<"notfound", 0, model, batch>> ELSE <<"ok", v, model, batch>>
    [] e.op = "Commit" ->
         IF batch.done THEN <<"batchcommitted", 0, model, batch>>
         ELSE <<"ok", 0, CommitMap(model, batch.staged), [open |-> FALSE, done |-> TRUE, staged |-> <<>>]>>
    [] OTHER -> <<"ok", 0, model, batch>>      \* Sync, Merge, Close, Open, Backup: the mapping is unchanged

\* a call that returned an error leaves the mapping unchanged (for Commit: the batch is over)
TOp == /\ Is("op")
       /\ LET e == E
              x == Expect(e)
              isB == e.op \in {"BPut", "BDelete", "BGet", "Commit"}
              okRes == IF e.op = "Merge" THEN TRUE      \* Merge may report an error (the mapping is unchanged either way)
                       ELSE e.err = x[1] /\ e.res = x[2]
          IN /\ (IF e.op \in {"Open"} THEN st = "closed" ELSE st = "open")
             /\ Must(IF isB THEN "bres" ELSE IF e.op = "Open" THEN "open" ELSE "res", okRes)
             \* C17: Merge is never refused because of the counters (ratio / free-space precondition of mergeCheck:
             \* the databases of the drivers are far below both thresholds)
             /\ Must("mergeok", e.op = "Merge" => e.err \notin {"nospace", "ratio"})
             /\ model' = IF e.err = "ok" THEN x[3] ELSE model
             /\ batch' = IF e.err = "ok" \/ e.op = "Commit" THEN x[4] ELSE batch
             /\ st' = IF e.op = "Open" THEN (IF e.err = "ok" THEN "open" ELSE "closed")
                      ELSE IF e.op = "Close" /\ e.err = "ok" THEN "closed" ELSE st
             /\ maxlim' = IF e.op = "Open" /\ e.cfg.limit > maxlim THEN e.cfg.limit ELSE maxlim
             \* The first file that did not take part in a Merge is the active file right after it (taken from
             \* the next dump, nm = -1 until then). A failed Merge leaves nothing that the checks below may rely on.
             /\ mg' = IF e.op = "Merge" THEN (IF e.err = "ok" THEN [on |-> TRUE, nm |-> -1, snap |-> model] ELSE NoMg)
                      ELSE mg
             /\ hist' = IF e.op \in {"Put", "BPut"} /\ e.k \in K THEN [hist EXCEPT ![e.k] = @ \cup {e.v}] ELSE hist
       /\ l' = l + 1 /\ nops' = nops + 1
       /\ UNCHANGED <<n, rec, lastact, orig, its>>

(* ---- observations ------------------------------------------------------ *)
RECURSIVE AscFrom(_, _)
\* the ascending sequence of the elements of the set S of integers that are >= lo
AscFrom(S, lo) == IF \A x \in S : x < lo THEN <<>>
                  ELSE LET m == CHOOSE x \in S : x >= lo /\ \A y \in S : y >= lo => x <= y
                       IN <<m>> \o AscFrom(S, m + 1)
LiveSeq == AscFrom(Live(model), 1)

RECURSIVE SumSizes(_, _)
SumSizes(ix, i) == IF i > Len(ix) THEN 0 ELSE (IF ix[i].f >= 0 THEN ix[i].s ELSE 0) + SumSizes(ix, i + 1)
NLiveIdx(ix) == Cardinality({i \in 1..Len(ix) : ix[i].f >= 0})

TDump ==
  /\ Is("dump") /\ st = "open"
  /\ LET e == E
         r1 == IF e.rescan THEN RecFold(RecInit(K), e.scan, 1) ELSE RecFold(rec, e.scan, 1)
     IN /\ rec' = r1
        \* C01: every read path shows the model
        /\ Must("vals", e.geterr = "ok" /\ \A k \in K : e.vals[k] = model[k])
        /\ Must("keys", e.lkerr = "ok" /\ e.keys = LiveSeq)
        /\ Must("fold", e.folderr = "ok" /\ e.fk = LiveSeq /\ Len(e.fv) = Len(e.fk)
                        /\ \A i \in 1..Len(e.fk) : e.fk[i] \in K /\ e.fv[i] = model[e.fk[i]])
        \* the live index is exactly what a recovery scan of the directory would build,
        \* and that recovery yields the model (C01/C02/C08: live view = recovered view)
        /\ Must("scan", e.scanerr = "ok" /\ r1.alien = 0 /\ ViewOf(r1.idx) = model)
        /\ Must("index", e.alien = 0 /\ \A k \in K :
                   /\ e.index[k].f = r1.idx[k].f /\ e.index[k].b = r1.idx[k].b
                   /\ e.index[k].o = r1.idx[k].o /\ e.index[k].s = r1.idx[k].s)
        \* C17: accounting, judged on the logged index so that only accounting is judged
        /\ Must("stat", /\ e.stat.keys = NLiveIdx(e.index) + e.alien
                        /\ e.stat.files = Len(e.files)
                        /\ e.stat.reclaim >= 0 /\ e.stat.reclaim <= e.stat.disk
                        /\ e.alien = 0 => e.stat.disk - e.stat.reclaim = SumSizes(e.index, 1))
        /\ Must("statkeys", e.stat.keys = Cardinality(Live(model)))
        /\ Must("files", \A i \in 1..Len(e.files) :
                   LET f == e.files[i] IN
                   /\ f.open = 1
                   /\ (f.size <= maxlim \/ f.nrec = 1 \/ (f.nrec = 2 /\ f.nfin = 1)))
        \* C06: the Open that follows a successful Merge has adopted it: no merge directory is left, and the
        \* files below the first non-participating id hold exactly one plain put per key that was live at
        \* the merge, with the value it had then (the sequential driver has no racing writer)
        \* (unless a Merge has run since that Open and before this first dump: its finished directory is legitimately there)
        /\ Must("nomdir", (e.rescan /\ ~(mg.on /\ mg.nm = -1)) => \A i \in 1..Len(e.mdir) : e.mdir[i] # "000000000.merge-finished")
        /\ Must("adopted", (e.rescan /\ mg.on /\ mg.nm >= 0) =>
               LET low == SelectSeq(e.scan, LAMBDA r : r.f < mg.nm) IN
               /\ Len(e.mdir) = 0
               /\ Len(low) = Cardinality(Live(mg.snap))
               /\ \A i \in 1..Len(low) : /\ low[i].t = 0 /\ low[i].bt = 0 /\ low[i].k \in K
                                          /\ low[i].v = mg.snap[low[i].k]
               /\ \A i, j \in 1..Len(low) : i # j => low[i].k # low[j].k)
        /\ mg' = IF mg.on /\ mg.nm = -1 /\ \E i \in 1..Len(e.files) : e.files[i].active = 1
                 THEN [mg EXCEPT !.nm = e.files[CHOOSE i \in 1..Len(e.files) : e.files[i].active = 1].id]
                 ELSE IF e.rescan THEN NoMg
                 ELSE mg
        /\ lastact' = IF \E i \in 1..Len(e.files) : e.files[i].active = 1
                       THEN e.files[CHOOSE i \in 1..Len(e.files) : e.files[i].active = 1].id
                       ELSE lastact
  /\ l' = l + 1
  /\ UNCHANGED <<n, st, model, batch, maxlim, hist, orig, its, nops>>

\* C20: the backup directory, opened as an independent database while the source is still open,
\* holds exactly the mapping the source had when Backup was called (no mutation lies between
\* the Backup call and this observation), and does not carry the source's lock
TBDump == /\ Is("bdump") /\ st = "open"
          /\ Must("backup", /\ E.open = "ok" /\ E.geterr = "ok" /\ E.close = "ok" /\ ~E.lockcopied
                            /\ \A k \in K : E.vals[k] = model[k]
                            /\ E.keys = LiveSeq /\ E.statkeys = Cardinality(Live(model)))
          /\ l' = l + 1 /\ UNCHANGED <<n, st, model, batch, rec, maxlim, mg, lastact, hist, orig, its, nops>>

\* C18: right after a successful Merge the hint file and the rewritten data files, decoded with the
\* package's own readers: the hinted (key, position, size) triples are exactly those of the rewritten
\* records, each key once, every record a plain put holding the key's current value
Triple(x) == <<x.k, x.f, x.b, x.o, x.s>>
THint == /\ Is("hint") /\ st = "open"
         /\ LET e == E
                H == {Triple(e.entries[i]) : i \in 1..Len(e.entries)}
                R == {Triple(e.recs[i]) : i \in 1..Len(e.recs)}
            IN Must("hint", /\ e.herr = "ok" /\ e.rerr = "ok"
                            /\ H = R /\ Cardinality(H) = Len(e.entries) /\ Len(e.recs) = Len(e.entries)
                            /\ \A i \in 1..Len(e.recs) : /\ e.recs[i].k \in K /\ e.recs[i].t = 0 /\ e.recs[i].bt = 0
                                                          /\ e.recs[i].v = model[e.recs[i].k]
                            /\ {e.recs[i].k : i \in 1..Len(e.recs)} = Live(model)
                            /\ Len(e.recs) = Cardinality(Live(model)))
         /\ l' = l + 1 /\ UNCHANGED <<n, st, model, batch, rec, maxlim, mg, lastact, hist, orig, its, nops>>

\* C18: a copy of both directories opened through the hint (the adopting Open) and then once more by a
\* plain scan of the same files: same values, same positions, same sizes - and both equal to the model
THintCmp == /\ Is("hintcmp") /\ st = "open"
            /\ LET e == E IN
               Must("hintcmp", /\ e.opena = "ok" /\ e.openb = "ok" /\ e.closea = "ok"
                               /\ e.vala = e.valb /\ e.idxa = e.idxb /\ e.livea = e.liveb
                               /\ \A k \in K : e.vala[k] = model[k])
            /\ l' = l + 1 /\ UNCHANGED <<n, st, model, batch, rec, maxlim, mg, lastact, hist, orig, its, nops>>

(* ---- C12: damaged files ---------------------------------------------------- *)
\* the records every file holds before any damage, scanned with the package's reader from the closed database
TDBase == /\ Is("dbase") /\ st = "closed"
          /\ orig' = E.files
          /\ l' = l + 1 /\ UNCHANGED <<n, st, model, batch, rec, maxlim, mg, lastact, hist, its, nops>>

Ident(r) == <<r.k, r.v, r.t>>
OrigOf(name) == LET S == {i \in 1..Len(orig) : orig[i].name = name} IN
                IF S = {} THEN {} ELSE LET f == orig[CHOOSE i \in S : TRUE] IN {Ident(f.recs[i]) : i \in 1..Len(f.recs)}
\* One copy of the closed database had one file damaged (kind "flip": one bit; "bytes": several bytes overwritten;
\* "zeros": a run of zero bytes from a record or block start; "trunc": file cut; "garbage": a block replaced), was
\* opened, and every read path was used. Allowed:
\*   - Open, Get, Fold, the sequential reader return an error (never a panic, never a hang);
\*   - a value that is returned is the one originally written for that key (for cuts, which can remove whole
\*     records undetectably, and for damage to the final record of the newest file: a value once written to
\*     that key, or not-found);
\*   - nothing the sequential reader delivers differs from a record that file held.
TDamage ==
  /\ Is("damage") /\ st = "closed"
  /\ LET e == E
         \* a damaged final record of the newest data file is indistinguishable from a torn write, which recovery
         \* may legitimately drop (C03): there the wider rule applies
         \* (bit flips, overwritten bytes, zeroed runs and garbage blocks are all caught by the checksums; only a cut can
         \* remove whole records without a trace)
         \* (a cut of a *hint* file removes index entries only: every data file is intact, so it has to be harmless or
         \* reported like any other damage)
         strict == (e.kind \in {"flip", "bytes", "zeros", "garbage"} /\ ~e.tail) \/ (e.kind = "trunc" /\ e.hint)
         okErr(x) == x \notin {"panic", "stuck"}
         valOK(k) == \/ e.vals[k] = model[k]
                     \/ (e.vals[k] = -2 /\ okErr(e.geterrs[k]))                        \* an error other than not-found
                     \/ (~strict /\ (e.vals[k] = Nil \/ e.vals[k] \in hist[k]))
     IN Must("damage",
          /\ okErr(e.open)
          /\ (e.open = "ok" =>
                /\ \A k \in K : valOK(k)
                /\ okErr(e.folderr)
                /\ \A i \in 1..Len(e.fk) : /\ e.fk[i] \in K
                                            /\ (e.fv[i] = model[e.fk[i]] \/ (~strict /\ e.fv[i] \in hist[e.fk[i]]))
                /\ ((strict /\ e.folderr = "ok") => e.fk = LiveSeq))
          /\ okErr(e.scanerr)
          /\ \A i \in 1..Len(e.scan) : Ident(e.scan[i]) \in OrigOf(e.file))
  /\ l' = l + 1 /\ UNCHANGED <<n, st, model, batch, rec, maxlim, mg, lastact, hist, orig, its, nops>>

\* Live damage: a file of the *open* database was damaged (cut, bytes overwritten, one bit flipped) behind the
\* engine's back, then keys were read (E.gets, in the order performed: [k, v, err]) and Fold was run; afterwards
\* the driver restored the file. The index is in memory, so every Get goes to the position of the live record:
\* it returns the value written there, or an error - never another value, never not-found, never a panic.
TLDamage ==
  /\ Is("ldamage") /\ st = "open"
  /\ LET e == E
         okErr(x) == x \notin {"panic", "stuck", "ok", "notfound"}
         getOK(g) == \/ (g.err = "ok" /\ g.v = model[g.k] /\ model[g.k] # Nil)
                     \/ (g.err = "notfound" /\ model[g.k] = Nil)
                     \/ (g.v = -2 /\ okErr(g.err))
     IN Must("ldamage",
          /\ \A i \in 1..Len(e.gets) : getOK(e.gets[i])
          /\ e.folderr \notin {"panic", "stuck"}
          /\ \A i \in 1..Len(e.fk) : e.fk[i] \in K /\ e.fv[i] = model[e.fk[i]]
          /\ (e.folderr = "ok" => e.fk = LiveSeq))
  /\ l' = l + 1 /\ UNCHANGED <<n, st, model, batch, rec, maxlim, mg, lastact, hist, orig, its, nops>>

(* ---- C10: iterators ------------------------------------------------------------ *)
\* The reference iterator (Iter.tla): the snapshot is the model at creation; the keys it yields are the live
\* keys with the prefix (E.match: the ranks that have it), ascending or descending; rc is the cursor.
\* Seek targets are logged in doubled rank space: 2r = key r itself, 2r+1 = a byte string strictly between
\* key r and key r+1.
RECURSIVE Rev(_)
Rev(sq) == IF sq = <<>> THEN <<>> ELSE Rev(Tail(sq)) \o <<Head(sq)>>
RefList(it) == LET a == AscFrom(Live(it.snap) \cap it.match, 1) IN IF it.rev THEN Rev(a) ELSE a
AtOrAfter(it, k, t) == IF it.rev THEN 2 * k <= t ELSE 2 * k >= t
RefSeek(it, t) == LET L == RefList(it)
                      S == {i \in 1..Len(L) : AtOrAfter(it, L[i], t)}
                  IN IF S = {} THEN Len(L) + 1 ELSE CHOOSE i \in S : \A j \in S : i <= j
\* what Valid / Key / Value must report with the cursor at rc
Shows(it, rc, e) == LET L == RefList(it) IN
    IF rc > Len(L) THEN ~e.valid
    ELSE e.valid /\ e.key = L[rc] /\ e.val = it.snap[L[rc]] /\ e.valerr = "ok"
SeqSet(sq) == {sq[i] : i \in 1..Len(sq)}

TINew == /\ Is("inew") /\ st = "open" /\ E.id \notin DOMAIN its
         /\ LET it == [snap |-> model, match |-> SeqSet(E.match), rev |-> E.rev, rc |-> 1, moved |-> FALSE] IN
            /\ its' = its @@ (E.id :> it)
            /\ Must("iter", Shows(it, 1, E))          \* a fresh iterator is positioned on its first key
         /\ l' = l + 1 /\ UNCHANGED <<n, st, model, batch, rec, maxlim, mg, lastact, hist, orig, nops>>

TICall == /\ Is("icall") /\ E.id \in DOMAIN its
          /\ LET it == its[E.id]
                 L == RefList(it)
                 legal == E.op # "Seek" \/ ~it.moved \/ RefSeek(it, E.t) >= it.rc
                 rc2 == CASE E.op = "Rewind" -> 1
                          [] E.op = "Next"   -> IF it.rc <= Len(L) THEN it.rc + 1 ELSE it.rc
                          [] E.op = "Seek"   -> RefSeek(it, E.t)
                          [] OTHER -> it.rc
             IN /\ (IF legal THEN TRUE ELSE Print(<<"DRIVER-BUG illegal Seek generated at line", l>>, FALSE))
                /\ its' = [its EXCEPT ![E.id] = [it EXCEPT !.rc = rc2, !.moved = E.op # "Rewind"]]
                /\ Must("iter", Shows(it, rc2, E))
          /\ l' = l + 1 /\ UNCHANGED <<n, st, model, batch, rec, maxlim, mg, lastact, hist, orig, nops>>

TIClose == /\ Is("iclose") /\ E.id \in DOMAIN its
           /\ its' = [h \in DOMAIN its \ {E.id} |-> its[h]]
           /\ l' = l + 1 /\ UNCHANGED <<n, st, model, batch, rec, maxlim, mg, lastact, hist, orig, nops>>

\* driver-side facts that must simply be true (canaries of C15, digests of C14)
TNote == /\ Is("note")
         /\ Must(E.check, E.ok)
         /\ l' = l + 1 /\ UNCHANGED <<n, st, model, batch, rec, maxlim, mg, lastact, hist, orig, its, nops>>

Next == TReset \/ TOp \/ TDump \/ TBDump \/ THint \/ THintCmp \/ TDBase \/ TDamage \/ TLDamage \/ TINew \/ TICall \/ TIClose \/ TNote
Spec == Init /\ [][Next]_vars

(* ---- acceptance: the whole file was consumed --------------------------- *)
ASSUME TLCSet(1, 0)
HW == IF l > TLCGet(1) THEN TLCSet(1, l) ELSE TRUE
Accepted == IF TLCGet(1) = Len(Trace) + 1 THEN TRUE
            ELSE Print(<<"REJECT at line", TLCGet(1)>>, FALSE)
=============================================================================
