------------------------------ MODULE DataTypes ------------------------------
(***************************************************************************)
(* C19.  The encoding of the Redis-style types over the key-value store    *)
(* (datatype/types.go, datatype/meta.go): one metadata record per key      *)
(* (type, version, size, list head/tail - or, for a String, the value and  *)
(* its expiry) plus one element record per field / member / list index     *)
(* keyed by (key, version, element); metadata and element are written in   *)
(* one batch, i.e. atomically.  A fresh version on re-creation hides the   *)
(* elements of a deleted key.  TLC checks, for every command sequence      *)
(* within the bounds, that every reply is one DTSem.Exec admits and that   *)
(* the abstraction of the store equals the abstract state (Refines), also  *)
(* across Restart (the store is all there is).                             *)
(* Bug switches:                                                           *)
(*   NoVersionInKey   element keys built without the version (elements of  *)
(*                    a deleted key reappear on re-creation)               *)
(*   HDelKeepsSize    HDel does not decrement the size                     *)
(***************************************************************************)
EXTENDS DTSem
CONSTANTS Keys, Elems, Vals, MaxCmds, Bug
VARIABLES kv,      \* the store: internal key (a tuple) -> value
          abs,     \* [Keys -> abstract state] as DTSem evolves it
          ver,     \* next version
          good,    \* every reply so far was admissible
          ncmds
vars == <<kv, abs, ver, good, ncmds>>
H0 == 100                                  \* initialListMark
MK(k) == <<"m", k>>
Vz(v) == IF "NoVersionInKey" \in Bug THEN 0 ELSE v
EK(k, v, x) == <<"e", k, Vz(v), x>>
ZK(k, v, sc, x) == <<"z", k, Vz(v), sc, x>>
InKV(key) == key \in DOMAIN kv
With(f, key, val) == [y \in DOMAIN f \cup {key} |-> IF y = key THEN val ELSE f[y]]
Minus(f, key) == [y \in DOMAIN f \ {key} |-> f[y]]

Init == kv = <<>> /\ abs = [k \in Keys |-> None] /\ ver = 1 /\ good = TRUE /\ ncmds = 0

\* findMetadata: <<status, meta>>; a new metadata record gets a fresh version
FindMeta(k, t) ==
   IF InKV(MK(k)) THEN (IF kv[MK(k)].t # t THEN <<"wrongtype", kv[MK(k)]>> ELSE <<"ok", kv[MK(k)]>>)
   ELSE <<"ok", [t |-> t, ver |-> ver, size |-> 0, head |-> H0, tail |-> H0]>>

\* one command as the code executes it: <<reply, kv'>>
Run(k, cmd) ==
  LET t == TypeOfCmd(cmd.c)
      fm == FindMeta(k, t)
      m == fm[2]
      ek == EK(k, m.ver, cmd.x)
  IN CASE cmd.c = "Set" -> << OK, With(kv, MK(k), [t |-> "string", v |-> cmd.v, exp |-> cmd.exp]) >>
       [] cmd.c = "Del" -> << OK, Minus(kv, MK(k)) >>
       [] cmd.c = "Get" -> IF ~InKV(MK(k)) THEN << R("notfound", FALSE, 0, 0), kv >>
                           ELSE IF kv[MK(k)].t # "string" THEN << WrongType, kv >>
                           ELSE << R("ok", FALSE, 0, IF kv[MK(k)].exp THEN 0 ELSE kv[MK(k)].v), kv >>
       [] cmd.c = "Type" -> IF InKV(MK(k)) THEN << OK, kv >> ELSE << R("notfound", FALSE, 0, 0), kv >>
       [] fm[1] = "wrongtype" -> << WrongType, kv >>
       [] cmd.c \in {"HSet"} ->
            IF InKV(ek) THEN << R("ok", FALSE, 0, 0), With(kv, ek, cmd.v) >>
            ELSE << R("ok", TRUE, 0, 0), With(With(kv, MK(k), [m EXCEPT !.size = @ + 1]), ek, cmd.v) >>
       [] cmd.c = "HGet" -> << R("ok", FALSE, 0, IF m.size # 0 /\ InKV(ek) THEN kv[ek] ELSE 0), kv >>
       [] cmd.c \in {"HDel", "SRem"} ->
            IF m.size = 0 \/ ~InKV(ek) THEN << R("ok", FALSE, 0, 0), kv >>
            ELSE << R("ok", TRUE, 0, 0),
                    Minus(With(kv, MK(k), [m EXCEPT !.size = IF "HDelKeepsSize" \in Bug THEN @ ELSE @ - 1]), ek) >>
       [] cmd.c = "SAdd" -> IF InKV(ek) THEN << R("ok", FALSE, 0, 0), kv >>
                            ELSE << R("ok", TRUE, 0, 0), With(With(kv, MK(k), [m EXCEPT !.size = @ + 1]), ek, 1) >>
       [] cmd.c = "SIsMember" -> << R("ok", m.size # 0 /\ InKV(ek), 0, 0), kv >>
       [] cmd.c \in {"LPush", "RPush"} ->
            LET i == IF cmd.c = "LPush" THEN m.head - 1 ELSE m.tail
                m2 == IF cmd.c = "LPush" THEN [m EXCEPT !.size = @ + 1, !.head = @ - 1] ELSE [m EXCEPT !.size = @ + 1, !.tail = @ + 1]
            IN << R("ok", FALSE, m2.size, 0), With(With(kv, MK(k), m2), EK(k, m.ver, i), cmd.x) >>
       [] cmd.c \in {"LPop", "RPop"} ->
            IF m.size = 0 THEN << R("ok", FALSE, 0, 0), kv >>
            ELSE LET i == IF cmd.c = "LPop" THEN m.head ELSE m.tail - 1
                     m2 == IF cmd.c = "LPop" THEN [m EXCEPT !.size = @ - 1, !.head = @ + 1] ELSE [m EXCEPT !.size = @ - 1, !.tail = @ - 1]
                 IN IF ~InKV(EK(k, m.ver, i)) THEN << R("notfound", FALSE, 0, 0), kv >>
                    ELSE << R("ok", FALSE, 0, kv[EK(k, m.ver, i)]), With(kv, MK(k), m2) >>
       [] cmd.c = "ZAdd" ->
            IF InKV(ek) /\ kv[ek] = cmd.sc THEN << R("ok", FALSE, 0, 0), kv >>
            ELSE IF InKV(ek) THEN << R("ok", FALSE, 0, 0), With(With(Minus(kv, ZK(k, m.ver, kv[ek], cmd.x)), ek, cmd.sc), ZK(k, m.ver, cmd.sc, cmd.x), 0) >>
            ELSE << R("ok", TRUE, 0, 0), With(With(With(kv, MK(k), [m EXCEPT !.size = @ + 1]), ek, cmd.sc), ZK(k, m.ver, cmd.sc, cmd.x), 0) >>
       [] cmd.c = "ZScore" -> IF m.size # 0 /\ InKV(ek) THEN << R("ok", TRUE, kv[ek], 0), kv >> ELSE << R("ok", FALSE, 0, 0), kv >>

Cmds == [c : {"Set"}, x : {0}, v : Vals, sc : {0}, exp : BOOLEAN]
   \cup [c : {"Get", "Del", "Type", "LPop", "RPop"}, x : {0}, v : {0}, sc : {0}, exp : {FALSE}]
   \cup [c : {"HSet"}, x : Elems, v : Vals, sc : {0}, exp : {FALSE}]
   \cup [c : {"HGet", "HDel", "SAdd", "SIsMember", "SRem", "ZScore", "LPush", "RPush"}, x : Elems, v : {0}, sc : {0}, exp : {FALSE}]
   \cup [c : {"ZAdd"}, x : Elems, v : {0}, sc : {1, 2}, exp : {FALSE}]

Do(k, cmd) ==
  /\ ncmds < MaxCmds /\ ncmds' = ncmds + 1
  /\ LET r == Run(k, cmd)
         adm == Exec(abs[k], cmd)
         match == {p \in adm : p[1] = r[1]}
     IN /\ kv' = r[2]
        /\ ver' = ver + 1
        /\ IF match = {} THEN good' = FALSE /\ UNCHANGED abs
           ELSE /\ UNCHANGED good
                \* when the property leaves the outcome open, follow what the code did (its reply identifies it)
                /\ \E p \in match : abs' = [abs EXCEPT ![k] = p[2]]
Next == \E k \in Keys, cmd \in Cmds : Do(k, cmd)
Spec == Init /\ [][Next]_vars

(* ---- abstraction of the store ---------------------------------------------------- *)
AbsOf(k) ==
  IF ~InKV(MK(k)) THEN None
  ELSE LET m == kv[MK(k)] IN
       CASE m.t = "string" -> [t |-> "string", v |-> m.v, exp |-> m.exp]
         [] m.t \in {"hash", "set", "zset"} ->
              [t |-> m.t, m |-> [x \in {x \in Elems : InKV(EK(k, m.ver, x))} |-> kv[EK(k, m.ver, x)]]]
         [] m.t = "list" -> [t |-> "list", q |-> [i \in 1..(m.tail - m.head) |-> kv[EK(k, m.ver, m.head + i - 1)]]]
RepliesAdmissible == good
\* the store represents exactly the abstract state (an emptied container and "none" are both vacant:
\* a key whose metadata says size 0 may be abstractly none after a re-creation was refused - compare modulo that)
Refines == \A k \in Keys : \/ AbsOf(k) = abs[k]
                           \/ (Vacant(abs[k]) /\ abs[k].t # "string" /\ ~InKV(MK(k)))
SizeExact == \A k \in Keys : (InKV(MK(k)) /\ kv[MK(k)].t \in {"hash", "set", "zset"}) =>
                kv[MK(k)].size = Cardinality({x \in Elems : InKV(EK(k, kv[MK(k)].ver, x))})
=============================================================================
