---------------------------- MODULE DirLockTrace ----------------------------
(***************************************************************************)
(* Judges Open/Close attempts made by several OS processes (and several    *)
(* goroutines of one process) on one directory (format L).  Events:        *)
(*   reset  {corrupt}                                                      *)
(*   lk     {o, act: open|close|closebegin|work, res, same}  one attempt   *)
(*          that completed (work: the holder wrote some keys and merged)   *)
(*          completed (closebegin: the Close of o has started and is parked *)
(*          at the close of its first data file; it ends with its close)   *)
(*          before the next one started; `same`: the directory's           *)
(*          fingerprint (names, sizes, hashes, lock file excluded) was     *)
(*          unchanged by a rejected Open                                   *)
(*          openbegin / openend: an Open parked right after taking the     *)
(*          lock, and its end                                              *)
(*   died   {p}                the process p was killed (no Close)         *)
(*   race   {os, res, winner}  attempts released together from a barrier   *)
(*   setdir {corrupt}          the directory was damaged / repaired        *)
(* The expected result of every attempt is computed by DirLock's rules.    *)
(***************************************************************************)
EXTENDS Integers, Sequences, FiniteSets, TLC, Json
CONSTANTS TraceFile, Enforce
Trace == ndJsonDeserialize(TraceFile)
VARIABLES l, holder, corrupt
vars == <<l, holder, corrupt>>
E == Trace[l]
Is(ev) == l <= Len(Trace) /\ Trace[l].ev = ev
Chk(name) == name \in Enforce
Fail(what) == Print(<<"CHECK-FAILED", "line", l, what>>, FALSE)
Must(name, cond) == IF Chk(name) /\ ~cond THEN Fail(name) ELSE TRUE
Init == l = 1 /\ holder = 0 /\ corrupt = FALSE
TReset == Is("reset") /\ l' = l + 1 /\ holder' = 0 /\ corrupt' = E.corrupt
TSet   == Is("setdir") /\ l' = l + 1 /\ corrupt' = E.corrupt /\ UNCHANGED holder
IsErr(r) == r \notin {"ok", "inuse", "panic", "stuck"}
TLk == /\ Is("lk") /\ l' = l + 1 /\ UNCHANGED corrupt
       /\ IF E.act = "openbegin"        \* an Open has taken the lock and is parked there: the directory is in use from now on
          THEN /\ Must("lock", holder = 0) /\ holder' = E.o
          ELSE IF E.act = "openend"     \* ... and now ran to its end
          THEN /\ Must("lock", holder = E.o /\ (IF corrupt THEN IsErr(E.res) ELSE E.res = "ok"))
               /\ holder' = (IF E.res = "ok" THEN E.o ELSE 0)
          ELSE IF E.act = "reclose"     \* a second Close on a handle closed earlier: no effect on whoever holds the lock now
          THEN /\ Must("lock", E.res = "ok" /\ E.o # holder) /\ UNCHANGED holder
          ELSE IF E.act \in {"closebegin", "work"}   \* the holder's Close is under way (parked) / the holder wrote and merged:
          THEN /\ Must("lock", E.o = holder /\ (E.act = "work" => E.res = "ok")) /\ UNCHANGED holder   \* the database is still open
          ELSE IF E.act = "close"
          THEN /\ Must("lock", E.o = holder /\ E.res = "ok") /\ holder' = 0
          ELSE IF holder # 0
               THEN /\ Must("lock", E.res = "inuse" /\ E.same) /\ UNCHANGED holder      \* rejected, directory untouched
               ELSE IF corrupt
                    THEN /\ Must("lock", IsErr(E.res)) /\ UNCHANGED holder               \* fails for another reason; lock released
                    ELSE /\ Must("lock", E.res = "ok") /\ holder' = (IF E.res = "ok" THEN E.o ELSE 0)
\* attempts racing each other on a directory nobody has open: exactly one wins
TRace == /\ Is("race") /\ l' = l + 1 /\ UNCHANGED corrupt
         /\ LET n == Len(E.res)
                oks == {i \in 1..n : E.res[i] = "ok"}
            IN IF holder # 0 THEN Must("lock", \A i \in 1..n : E.res[i] = "inuse") /\ UNCHANGED holder
               ELSE IF corrupt THEN Must("lock", \A i \in 1..n : IsErr(E.res[i]) \/ E.res[i] = "inuse") /\ UNCHANGED holder
               ELSE /\ Must("lock", Cardinality(oks) = 1 /\ \A i \in 1..n : E.res[i] \in {"ok", "inuse"})
                    /\ holder' = (IF oks = {} THEN 0 ELSE E.os[CHOOSE i \in oks : TRUE])
\* a process died without Close: the operating system released whatever lock it held (openers are 10 * process + slot)
TDied == /\ Is("died") /\ l' = l + 1 /\ UNCHANGED corrupt
         /\ holder' = IF holder \div 10 = E.p THEN 0 ELSE holder
Next == TReset \/ TSet \/ TLk \/ TRace \/ TDied
Spec == Init /\ [][Next]_vars
ASSUME TLCSet(1, 0)
HW == IF l > TLCGet(1) THEN TLCSet(1, l) ELSE TRUE
Accepted == IF TLCGet(1) = Len(Trace) + 1 THEN TRUE ELSE Print(<<"REJECT at line", TLCGet(1)>>, FALSE)
=============================================================================
